package sim

import (
	"encoding/json"
	"fmt"
	"os"
	"runtime"
	"runtime/debug"
	"sort"
	"strconv"
	"strings"
	"testing"
	"time"

	"verif/sim/dsim"
	"verif/sim/props"
)

// ReplayFile is the on-disk replay artifact.
type ReplayFile struct {
	Property  string          `json:"property"`
	Seed      uint64          `json:"seed"`
	Tape      []uint32        `json:"tape"`
	Labels    []string        `json:"labels,omitempty"`
	Strict    bool            `json:"strict"`
	Violation *dsim.Violation `json:"violation,omitempty"`
	Log       []string        `json:"log,omitempty"`
	Note      string          `json:"note,omitempty"`
	OrigTape  int             `json:"orig_tape_len,omitempty"`
	// Sequence locates the run inside its explore worker (base seed, worker index, run
	// index): used when a violation depends on state that survived earlier runs of the
	// same process and the tape alone does not reproduce it.
	Sequence *SeqInfo `json:"sequence,omitempty"`
}

// SeqInfo identifies the i-th run of an explore worker.
type SeqInfo struct {
	Base   uint64 `json:"base_seed"`
	Worker int    `json:"worker"`
	Index  int    `json:"index"`
}

// WorkerOut is what an explore worker prints as its last line.
type WorkerOut struct {
	Property      string           `json:"property"`
	Worker        int              `json:"worker"`
	Runs          int              `json:"runs"`
	Steps         int64            `json:"steps"`
	FakeNs        int64            `json:"fake_ns"`
	WallS         float64          `json:"wall_s"`
	Stats         map[string]int   `json:"stats"`
	Inconclusive  int              `json:"inconclusive"`
	Traces        []string         `json:"traces"`            // distinct trace hashes (hex)
	Nontrivial    []string         `json:"nontrivial_traces"` // distinct trace hashes of non-trivial runs
	States        []string         `json:"states"`            // distinct abstract-state hashes
	Violations    []ReplayFile     `json:"violations"`
	Samples       []map[string]any `json:"samples"`
	Infra         string           `json:"infra,omitempty"`
	FirstSeed     uint64           `json:"first_seed"`
	ClassCounts   map[string]int   `json:"class_counts"`
	RunsWithFault int              `json:"runs_with_fault"`
	Real          []string         `json:"real"`
	Stub          []string         `json:"stub"`
	Notes         []string         `json:"notes"`
}

func envInt(k string, def int) int {
	if v := os.Getenv(k); v != "" {
		n, err := strconv.ParseInt(v, 10, 64)
		if err == nil {
			return int(n)
		}
	}
	return def
}

func envU64(k string, def uint64) uint64 {
	if v := os.Getenv(k); v != "" {
		n, err := strconv.ParseUint(v, 10, 64)
		if err == nil {
			return n
		}
	}
	return def
}

func TestMain(m *testing.M) {
	runtime.GOMAXPROCS(1)
	debug.SetGCPercent(-1)
	dsim.InstallHooks()
	os.Exit(m.Run())
}

func runSeed(t *testing.T, spec *props.Spec, seed uint64, pre []uint32, strict bool, labels []string, keep bool) dsim.Result {
	tape := dsim.NewTape(seed, pre, strict)
	tape.ExpectLabels = labels
	cfg := spec.Cfg
	cfg.KeepLog = keep
	var res dsim.Result
	t.Run("r", func(t *testing.T) {
		res = dsim.RunOne(t, spec.New(), cfg, tape)
	})
	return res
}

func nontrivial(r *dsim.Result) bool {
	faults := 0
	completions := 0
	for k, v := range r.Stats {
		if len(k) > 6 && k[:6] == "fault:" {
			faults += v
		}
		if len(k) > 5 && k[:5] == "done:" {
			completions += v
		}
	}
	return (faults > 0 || r.Interleaved) && completions > 0
}

// TestWorker is the single entry point; behaviour is selected by DSIM_MODE.
func TestWorker(t *testing.T) {
	mode := os.Getenv("DSIM_MODE")
	if mode == "" {
		t.Skip("DSIM_MODE not set")
	}
	prop := os.Getenv("DSIM_PROP")
	spec := props.Get(prop)
	if spec == nil {
		fmt.Printf("DSIM-INFRA unknown property %q\n", prop)
		os.Exit(2)
	}
	// Warm-up: the first run of a process triggers lazy initialisation (sync.Once bodies,
	// package caches, pools) whose map creations and selects draw from the seeded runtime
	// stream; a run must behave the same whether it is the first of its process (a replay)
	// or the 500th (exploration). A throw-away run per process absorbs those one-time
	// effects; the order-permuting self-test checks that nothing else leaks between runs.
	if os.Getenv("DSIM_WARMUP") != "0" {
		// (DSIM-START is printed for warm-up runs too: a panic of the code under test during
		// warm-up is attributed to a seed and reported as a violation, not as an infra error.)
		for i := 0; i < 3; i++ {
			fmt.Printf("DSIM-START %d\n", dsim.Mix(0x5eed, dsim.HashStr(spec.ID), uint64(i)))
			runSeed(t, spec, dsim.Mix(0x5eed, dsim.HashStr(spec.ID), uint64(i)), nil, false, nil, false)
		}
		for i, mk := range spec.Warm {
			ws := *spec
			ws.New = mk
			fmt.Printf("DSIM-START %d\n", dsim.Mix(0x5eed, dsim.HashStr(spec.ID), uint64(100+i)))
			runSeed(t, &ws, dsim.Mix(0x5eed, dsim.HashStr(spec.ID), uint64(100+i)), nil, false, nil, false)
		}
		dsim.LastInfra = nil
	}
	switch mode {
	case "explore":
		explore(t, spec)
	case "replay":
		replay(t, spec)
	case "shrink":
		shrink(t, spec)
	case "hashes":
		hashes(t, spec)
	case "find":
		// locate a run seed inside the explore sequence (debugging)
		target := envU64("DSIM_SEED_EXACT", 0)
		base := envU64("DSIM_SEED", 1)
		for w := 0; w < 64; w++ {
			for i := 0; i < envInt("DSIM_RUNS", 100000); i++ {
				if dsim.Mix(base, dsim.HashStr(spec.ID), uint64(w), uint64(i)) == target {
					emit(map[string]any{"worker": w, "index": i})
					return
				}
			}
		}
		emit(map[string]any{"worker": -1})
	case "dump":
		seed := envU64("DSIM_SEED_EXACT", 1)
		// DSIM_PRE: seeds to run first in this process (debugging history dependence)
		for _, ps := range strings.Split(os.Getenv("DSIM_PRE"), ",") {
			if n, err := strconv.ParseUint(strings.TrimSpace(ps), 10, 64); err == nil {
				runSeed(t, spec, n, nil, false, nil, false)
			}
		}
		res := runSeed(t, spec, seed, nil, false, nil, true)
		emit(map[string]any{"log": res.Log, "violation": res.Violation, "trace_hash": strconv.FormatUint(res.TraceHash, 16)})
	default:
		fmt.Printf("DSIM-INFRA unknown mode %q\n", mode)
		os.Exit(2)
	}
}

func emit(v any) {
	b, err := json.Marshal(v)
	if err != nil {
		panic(err)
	}
	out := os.Getenv("DSIM_OUT")
	if out != "" {
		if err := os.WriteFile(out, b, 0o644); err != nil {
			panic(err)
		}
		return
	}
	fmt.Printf("DSIM-OUT %s\n", b)
}

func explore(t *testing.T, spec *props.Spec) {
	base := envU64("DSIM_SEED", 1)
	worker := envInt("DSIM_WORKER", 0)
	runs := envInt("DSIM_RUNS", 100)
	budget := time.Duration(envInt("DSIM_BUDGET_S", 600)) * time.Second
	maxViol := envInt("DSIM_MAX_VIOL", 3)
	out := WorkerOut{Property: spec.ID, Worker: worker, Stats: map[string]int{}, ClassCounts: map[string]int{}, Real: spec.Real, Stub: spec.Stub, Notes: spec.Notes}
	traces := map[uint64]struct{}{}
	nontriv := map[uint64]struct{}{}
	states := map[uint64]struct{}{}
	start := time.Now()
	for i := 0; i < runs; i++ {
		if time.Since(start) > budget {
			break
		}
		seed := dsim.Mix(base, dsim.HashStr(spec.ID), uint64(worker), uint64(i))
		if i == 0 {
			out.FirstSeed = seed
		}
		fmt.Printf("DSIM-START %d\n", seed)
		keep := i < 2
		res := runSeed(t, spec, seed, nil, false, nil, keep)
		if dsim.LastInfra != nil {
			out.Infra = fmt.Sprintf("seed %d: %s", seed, dsim.LastInfra.Msg)
			break
		}
		out.Runs++
		out.Steps += int64(res.Steps)
		out.FakeNs += res.FakeNs
		hadFault := false
		for k, v := range res.Stats {
			out.Stats[k] += v
			if len(k) > 6 && k[:6] == "fault:" && v > 0 {
				hadFault = true
			}
		}
		if hadFault {
			out.RunsWithFault++
		}
		if res.Inconclusive != "" {
			out.Inconclusive++
		}
		traces[res.TraceHash] = struct{}{}
		if nontrivial(&res) {
			nontriv[res.TraceHash] = struct{}{}
		}
		for _, h := range res.States {
			states[h] = struct{}{}
		}
		if keep {
			out.Samples = append(out.Samples, map[string]any{"seed": seed, "steps": res.Steps, "stats": res.Stats, "log": res.Log})
		}
		if res.Violation != nil {
			cls := res.Violation.Class()
			out.ClassCounts[cls]++
			if out.ClassCounts[cls] <= 1 && len(out.Violations) < maxViol {
				out.Violations = append(out.Violations, ReplayFile{Property: spec.ID, Seed: seed, Tape: res.Tape, Labels: res.Labels,
					Violation: res.Violation, Log: res.Log, Sequence: &SeqInfo{Base: base, Worker: worker, Index: i}})
			}
		}
		if i%64 == 63 {
			runtime.GC()
		}
	}
	out.WallS = time.Since(start).Seconds()
	out.Traces = hexSet(traces)
	out.Nontrivial = hexSet(nontriv)
	out.States = hexSet(states)
	emit(out)
}

func hexSet(m map[uint64]struct{}) []string {
	out := make([]string, 0, len(m))
	for h := range m {
		out = append(out, strconv.FormatUint(h, 16))
	}
	sort.Strings(out)
	return out
}

func loadReplay() ReplayFile {
	var rf ReplayFile
	b, err := os.ReadFile(os.Getenv("DSIM_REPLAY"))
	if err != nil {
		fmt.Printf("DSIM-INFRA %v\n", err)
		os.Exit(2)
	}
	if err := json.Unmarshal(b, &rf); err != nil {
		fmt.Printf("DSIM-INFRA %v\n", err)
		os.Exit(2)
	}
	return rf
}

// replay re-executes a replay file strictly and reports the outcome.
func replay(t *testing.T, spec *props.Spec) {
	rf := loadReplay()
	res := runSeed(t, spec, rf.Seed, rf.Tape, true, rf.Labels, true)
	o := map[string]any{"violation": res.Violation, "diverged": res.Diverged, "trace_hash": strconv.FormatUint(res.TraceHash, 16), "steps": res.Steps, "log": res.Log}
	if dsim.LastInfra != nil {
		o["infra"] = dsim.LastInfra.Msg
	}
	emit(o)
}

// hashes prints the trace hash of a list of seeds (determinism self-test).
func hashes(t *testing.T, spec *props.Spec) {
	base := envU64("DSIM_SEED", 1)
	runs := envInt("DSIM_RUNS", 32)
	out := map[string]string{}
	// DSIM_ORDER permutes the order in which the seeds are run (history independence)
	order := envInt("DSIM_ORDER", 0)
	for j := 0; j < runs; j++ {
		i := j
		switch order {
		case 1:
			i = runs - 1 - j
		case 2:
			i = (j*7 + 3) % runs // 7 is coprime to 48
		}
		seed := dsim.Mix(base, dsim.HashStr(spec.ID), 999, uint64(i))
		keep := envU64("DSIM_DUMP_SEED", 0) == seed
		res := runSeed(t, spec, seed, nil, false, nil, keep)
		if keep {
			_ = os.WriteFile(os.Getenv("DSIM_DUMP_FILE"), []byte(strings.Join(res.Log, "\n")), 0o644)
		}
		if dsim.LastInfra != nil {
			out[strconv.FormatUint(seed, 10)] = "infra:" + dsim.LastInfra.Msg
			continue
		}
		v := ""
		if res.Violation != nil {
			v = res.Violation.Class()
		}
		out[strconv.FormatUint(seed, 10)] = fmt.Sprintf("%x/%d/%s", res.TraceHash, res.Steps, v)
	}
	emit(out)
}

// shrink minimises the tape of a failing run while the same violation class recurs.
func shrink(t *testing.T, spec *props.Spec) {
	rf := loadReplay()
	want := rf.Violation.Class()
	budget := time.Duration(envInt("DSIM_BUDGET_S", 60)) * time.Second
	start := time.Now()
	tries := 0
	try := func(tp []uint32) (bool, dsim.Result) {
		tries++
		res := runSeed(t, spec, rf.Seed, tp, true, nil, false)
		if dsim.LastInfra != nil || res.Violation == nil {
			return false, res
		}
		return res.Violation.Class() == want, res
	}
	cur := append([]uint32(nil), rf.Tape...)
	ok, res := try(cur)
	if !ok {
		emit(map[string]any{"shrunk": false, "reason": "original tape does not reproduce under strict replay", "tries": tries})
		return
	}
	// the run may consume fewer entries than recorded
	if len(res.Tape) < len(cur) {
		cur = append([]uint32(nil), res.Tape...)
	}
	best := res
	timeUp := func() bool { return time.Since(start) > budget }
	// 1. truncate (missing entries read as 0)
	lo, hi := 0, len(cur)
	for lo < hi && !timeUp() {
		mid := (lo + hi) / 2
		if ok, r := try(cur[:mid]); ok {
			hi = mid
			best = r
		} else {
			lo = mid + 1
		}
	}
	cur = cur[:hi]
	// 2. delta-debug block deletion
	for size := len(cur) / 2; size >= 1 && !timeUp(); size /= 2 {
		for i := 0; i+size <= len(cur) && !timeUp(); {
			cand := append(append([]uint32(nil), cur[:i]...), cur[i+size:]...)
			if ok, r := try(cand); ok {
				cur = cand
				best = r
			} else {
				i += size
			}
		}
	}
	// 3. lower entries toward zero
	for pass := 0; pass < 2 && !timeUp(); pass++ {
		for i := 0; i < len(cur) && !timeUp(); i++ {
			if cur[i] == 0 {
				continue
			}
			for _, v := range []uint32{0, cur[i] / 2, cur[i] - 1} {
				if v >= cur[i] {
					continue
				}
				cand := append([]uint32(nil), cur...)
				cand[i] = v
				if ok, r := try(cand); ok {
					cur = cand
					best = r
					break
				}
			}
		}
	}
	// final: record labels and log of the minimised run
	final := runSeed(t, spec, rf.Seed, cur, true, nil, true)
	if final.Violation == nil || final.Violation.Class() != want {
		emit(map[string]any{"shrunk": false, "reason": "minimised tape stopped reproducing", "tries": tries})
		return
	}
	_ = best
	outF := ReplayFile{Property: spec.ID, Seed: rf.Seed, Tape: final.Tape, Labels: final.Labels, Strict: true,
		Violation: final.Violation, Log: final.Log, OrigTape: len(rf.Tape), Note: fmt.Sprintf("shrunk in %d tries", tries)}
	emit(map[string]any{"shrunk": true, "replay": outF, "tries": tries})
}
