package props

import (
	"context"
	"fmt"
	"sort"
	"strings"
	"time"

	"github.com/aperturerobotics/bifrost/link"
	"github.com/aperturerobotics/bifrost/peer"
	"github.com/aperturerobotics/bifrost/protocol"
	transport_controller "github.com/aperturerobotics/bifrost/transport/controller"
	"github.com/aperturerobotics/controllerbus/directive"
	protobuf_go_lite "github.com/aperturerobotics/protobuf-go-lite"
	"github.com/aperturerobotics/util/broadcast"

	"verif/sim/dsim"
	"verif/sim/worlds/node"
)

// C04: link lookups return only links between the requested peers.
//
// World NODE: one real bus carrying two real transport controllers (local peers S1, S2)
// over simlink transports. Links (unique UUIDs) to remote identities D1-D3, self-links
// (remote = the transport's own peer) and links between S1 and S2 are established and
// lost over time; EstablishLinkWithPeer(src, dst) directives with src in {"", S1, S2,
// stranger} and dst in {D1, D2, D3, S1, S2} are added and released; incoming streams with
// a valid header are injected on live links and reach a harness HandleMountedStream
// handler. Transport callbacks and resolvers park at the armed lock sites.
//
// Oracle: (1) every value ever emitted for a directive (src, dst) has remote peer dst and,
// if src is given, local peer src; (2) a self-link gets Close and is never emitted to
// anyone; (3) every mounted stream delivered to the handler reports the remote peer of
// the link it arrived on; (4) at quiescence the value set of every directive equals the
// model's live links to dst on the transports whose peer matches src.
type c04World struct {
	s       *dsim.Sim
	net     *node.Net
	nd      *node.Node
	tcs     []*node.TC
	links   []*node.SimLink
	live    map[*node.SimLink]bool
	busy    map[*node.SimLink]int
	dirs    []*c04Dir
	ops     int
	maxOps  int
	seq     int
	viol    *dsim.Violation
	strms   int
	handled int
	nd2     *node.Node
}

type c04Dir struct {
	w        *c04World
	src, dst string // party names; src "" = any, "X" = stranger
	ref      directive.Reference
	values   map[uint32]link.MountedLink
	released bool
	id       int
	node2    bool // lives on the second bus
}

func (d *c04Dir) HandleValueAdded(_ directive.Instance, v directive.AttachedValue) {
	ml, ok := v.GetValue().(link.MountedLink)
	if !ok {
		return
	}
	w := d.w
	d.values[v.GetValueID()] = ml
	w.s.Count("done:value")
	rem := w.net.Names[ml.GetRemotePeer().String()]
	loc := w.net.Names[ml.GetLocalPeer().String()]
	if rem != d.dst {
		w.fail(&dsim.Violation{Property: "C04", Rule: "value-with-wrong-remote-peer", Witness: "remote!=requested-destination",
			Detail: fmt.Sprintf("directive (src=%q,dst=%s) was given a link %s->%s", d.src, d.dst, loc, rem)})
	}
	if d.src != "" && loc != d.src {
		w.fail(&dsim.Violation{Property: "C04", Rule: "value-with-wrong-local-peer", Witness: "local!=requested-source",
			Detail: fmt.Sprintf("directive (src=%s,dst=%s) was given a link %s->%s", d.src, d.dst, loc, rem)})
	}
	if rem == loc {
		w.fail(&dsim.Violation{Property: "C04", Rule: "self-link-yielded", Witness: "remote==local",
			Detail: fmt.Sprintf("directive (src=%q,dst=%s) was given a link from %s to itself", d.src, d.dst, loc)})
	}
}
func (d *c04Dir) HandleValueRemoved(_ directive.Instance, v directive.AttachedValue) {
	delete(d.values, v.GetValueID())
}
func (d *c04Dir) HandleInstanceDisposed(directive.Instance) {}

func init() {
	register(&Spec{
		ID: "C04", World: "NODE",
		New:        func() dsim.World { return &c04World{} },
		Cfg:        dsim.Config{MaxChaosSteps: 140, MaxStableSteps: 4000, Horizon: 8 * time.Second},
		Real:       []string{"transport/controller.Controller (EstablishLinkWithPeer resolver incl. source filter, HandleLinkEstablished self-dial check, mountedLink, mountedStream, HandleIncomingStream, header reader)", "link.EstablishLinkWithPeer / HandleMountedStream directives", "controllerbus bus + directive controller", "peer controllers for both local identities"},
		Stub:       []string{"simlink transports: links, their callbacks and the remote ends of streams are played by the harness", "harness HandleMountedStream handler controller", "util/broadcast lock instrumented"},
		FaultKinds: []string{"fault:self-link", "fault:link-lost", "fault:directive-released", "fault:stranger-source", "fault:clock-jump", "fault:transport-starts-late"},
	})
}

func (w *c04World) fail(v *dsim.Violation) {
	if w.viol == nil {
		w.viol = v
	}
}

func (w *c04World) Setup(s *dsim.Sim) {
	w.s = s
	t := s.Tape
	broadcast.SimSlowPaths = 0
	w.net = node.NewNet(s)
	w.nd = w.net.AddNode("N", "S1", "S2")
	// in some runs the first transport controller starts slowly: requests arrive while it
	// has no transport yet (start-up window)
	arm := []int{0, 40, 100}[t.Draw(3, "arm-pct")]
	armSites := []string{"bl:bifrost/transport/controller/transport-handler.go", "bl:bifrost/transport/controller/establish-link.go", "bl:bifrost/transport/controller/controller.go", "go:transport/controller/", "harness/transport-ctor"}
	if t.Bool(1, 3, "late-transport") {
		s.Count("fault:transport-starts-late")
		s.AlwaysArm = []string{"harness/transport-ctor"}
		w.tcs = []*node.TC{w.nd.AddTransportLate("t1", "S1"), w.nd.AddTransport("t2", "S2")}
	} else {
		w.tcs = []*node.TC{w.nd.AddTransport("t1", "S1"), w.nd.AddTransport("t2", "S2")}
	}
	w.live = map[*node.SimLink]bool{}
	w.busy = map[*node.SimLink]int{}
	w.maxOps = 4 + t.Draw(22, "max-ops")
	w.net.Party("X")
	for _, n := range []string{"D1", "D2", "D3"} {
		w.net.Party(n)
	}
	w.nd.AddController(&node.HandlerCtl{ID: "c04", Fn: w.handleStream})
	if t.Bool(1, 3, "any-peer-controller") {
		// a second bus with ONE identity and a transport controller configured with an empty
		// peer id (it takes whatever peer the bus has)
		w.nd2 = w.net.AddNode("N2", "S3")
		w.tcs = append(w.tcs, w.nd2.AddTransportAnyPeer("t3", "S3"))
		d := &c04Dir{w: w, src: "", dst: "S3", values: map[uint32]link.MountedLink{}, id: 100, node2: true}
		_, ref, err := w.nd2.Bus.AddDirective(link.NewEstablishLinkWithPeer("", w.pid("S3")), d)
		if err != nil {
			panic(err)
		}
		d.ref = ref
		w.dirs = append(w.dirs, d)
	}
	s.ArmFraction(arm, armSites)
	if t.Bool(1, 2, "holder-park") {
		// a reader parked while holding the controller lock makes the TryHoldLock pre-check
		// of the directive handler fail (the source filter must then be applied later)
		s.SetHolderPark(func(site string) bool { return strings.Contains(site, "bifrost/transport/controller/controller.go") })
	}
}

// handleStream is the harness MountedStreamHandler.
func (w *c04World) handleStream(ctx context.Context, ms link.MountedStream) error {
	w.handled++
	w.s.Count("done:stream-handled")
	var l *node.SimLink
	for _, x := range w.links {
		if x.UUID == ms.GetLink().GetLinkUUID() {
			l = x
		}
	}
	if l == nil {
		w.fail(&dsim.Violation{Property: "C04", Rule: "stream-on-unknown-link", Witness: "uuid", Detail: fmt.Sprintf("uuid %d", ms.GetLink().GetLinkUUID())})
		return nil
	}
	if ms.GetPeerID() != l.Rem {
		w.fail(&dsim.Violation{Property: "C04", Rule: "stream-reports-wrong-peer", Witness: "stream-peer!=link-remote",
			Detail: fmt.Sprintf("stream on link %s reports peer %s, the link's remote peer is %s", l.Name, w.net.Names[ms.GetPeerID().String()], w.net.Names[l.Rem.String()])})
	}
	if ms.GetLink().GetRemotePeer() != l.Rem || ms.GetLink().GetLocalPeer() != l.Local {
		w.fail(&dsim.Violation{Property: "C04", Rule: "stream-link-mismatch", Witness: "mounted-link-peers",
			Detail: fmt.Sprintf("stream on link %s carries mounted link %s->%s", l.Name, w.net.Names[ms.GetLink().GetLocalPeer().String()], w.net.Names[ms.GetLink().GetRemotePeer().String()])})
	}
	_ = ms.GetStream().Close()
	return nil
}

func (w *c04World) pid(name string) peer.ID {
	if name == "" {
		return ""
	}
	return w.net.Party(name).ID
}

func (w *c04World) wantValues(d *c04Dir) []string {
	var out []string
	for _, l := range w.links {
		if !w.live[l] || l.Rem == l.Local {
			continue
		}
		if (l.T.TC.Name == "t3") != d.node2 {
			continue
		}
		if w.net.Names[l.Rem.String()] != d.dst {
			continue
		}
		if d.src != "" && w.net.Names[l.Local.String()] != d.src {
			continue
		}
		out = append(out, fmt.Sprintf("u%d", l.UUID))
	}
	sort.Strings(out)
	return out
}

func (w *c04World) Actions(s *dsim.Sim, add func(dsim.Action)) {
	w.net.Actions(add)
	if s.Phase == dsim.PhaseStable || w.ops >= w.maxOps {
		return
	}
	t := s.Tape
	add(dsim.Action{Name: "3op:establish", Weight: 8, Fire: func() {
		w.ops++
		tc := w.tcs[t.Draw(len(w.tcs), "tc")]
		if tc.Tpt == nil {
			return // this transport is still being constructed
		}
		remotes := []string{"D1", "D2", "D3", "S1", "S2"}
		r := remotes[t.Draw(len(remotes), "remote")]
		if tc.Name == "t3" && t.Bool(1, 2, "self") {
			r = "S3"
		}
		w.seq++
		l := w.net.NewLink(tc.Tpt, fmt.Sprintf("L%d.%s>%s", w.seq, tc.P.Name, r), uint64(100+w.seq), w.pid(r))
		l.LostFn = func() { w.lose(l) }
		// a link nobody holds a reference to expires after the hold-open period and is
		// closed by the system: from then on it does not count as live (expected behaviour)
		l.OnSysClose = func() { delete(w.live, l) }
		w.links = append(w.links, l)
		if l.Rem == l.Local {
			s.Count("fault:self-link")
		}
		w.live[l] = true
		w.call(l, func() { tc.Tpt.Handler.HandleLinkEstablished(l) })
		s.Logf("event establish %s", l.Name)
	}})
	for _, l := range w.links {
		l := l
		if w.live[l] && w.busy[l] == 0 {
			add(dsim.Action{Name: "3op:lose:" + l.Name, Weight: 2, Fire: func() { w.ops++; s.Count("fault:link-lost"); w.lose(l) }})
			if l.Rem != l.Local && w.strms < 6 && !l.IsClosed() {
				add(dsim.Action{Name: "3op:stream:" + l.Name, Weight: 3, Fire: func() {
					w.ops++
					w.strms++
					st := l.InjectStream()
					hdr := headerBytes(protocol.ID(fmt.Sprintf("proto/%d", w.strms)))
					_, _ = st.Write(hdr)
					_, _ = st.Write([]byte("payload"))
				}})
			}
		}
	}
	add(dsim.Action{Name: "3op:reader", Weight: 2, Fire: func() {
		w.ops++
		tc := w.tcs[t.Draw(2, "tc")]
		go func() { _ = tc.Ctrl.GetPeerLinks(w.pid("D1")) }()
	}})
	if len(w.dirs) < 8 {
		add(dsim.Action{Name: "3op:add-directive", Weight: 6, Fire: func() {
			w.ops++
			srcs := []string{"", "S1", "S2", "X"}
			dsts := []string{"D1", "D2", "D3", "S1", "S2"}
			d := &c04Dir{w: w, src: srcs[t.Draw(len(srcs), "src")], dst: dsts[t.Draw(len(dsts), "dst")], values: map[uint32]link.MountedLink{}, id: len(w.dirs)}
			if d.src == "X" {
				s.Count("fault:stranger-source")
			}
			_, ref, err := w.nd.Bus.AddDirective(link.NewEstablishLinkWithPeer(w.pid(d.src), w.pid(d.dst)), d)
			if err != nil {
				panic(err)
			}
			d.ref = ref
			w.dirs = append(w.dirs, d)
			s.Logf("directive #%d (src=%q,dst=%s)", d.id, d.src, d.dst)
		}})
	}
	for _, d := range w.dirs {
		d := d
		if !d.released {
			add(dsim.Action{Name: fmt.Sprintf("3op:release-directive:%d", d.id), Weight: 1, Fire: func() {
				w.ops++
				s.Count("fault:directive-released")
				d.released = true
				d.ref.Release()
			}})
		}
	}
}

func (w *c04World) lose(l *node.SimLink) {
	delete(w.live, l)
	w.s.Logf("event lost %s", l.Name)
	w.call(l, func() { l.T.Handler.HandleLinkLost(l) })
}

func (w *c04World) call(l *node.SimLink, f func()) {
	w.busy[l]++
	go func() { f(); w.busy[l]-- }()
}

func (w *c04World) check(s *dsim.Sim) *dsim.Violation {
	for _, n := range w.busy {
		if n > 0 {
			return nil
		}
	}
	if s.ParkedCount() > 0 || !w.net.Idle() {
		return nil
	}
	// self-links must have been closed
	for _, l := range w.links {
		if l.Rem == l.Local && !l.IsClosed() {
			return &dsim.Violation{Property: "C04", Rule: "self-link-not-closed", Witness: "close-not-called", Detail: l.Name}
		}
	}
	var st []string
	for _, d := range w.dirs {
		if d.released {
			continue
		}
		var got []string
		for _, ml := range d.values {
			got = append(got, fmt.Sprintf("u%d", ml.GetLinkUUID()))
		}
		sort.Strings(got)
		want := w.wantValues(d)
		st = append(st, fmt.Sprintf("%s>%s:%v", d.src, d.dst, want))
		if broadcast.SimSlowPaths > 0 {
			// a transport callback was deferred by HoldLockMaybeAsync in this run: which links
			// are live is then C06's question (known finding S-5b); C04 only constrains the
			// peers of what is yielded (checked on every value above)
			continue
		}
		if strings.Join(got, ",") != strings.Join(want, ",") {
			kind := "missing-value"
			if len(got) > len(want) {
				kind = "extra-value"
			}
			return &dsim.Violation{Property: "C04", Rule: "directive-values!=matching-live-links", Witness: kind,
				Detail: fmt.Sprintf("directive #%d (src=%q,dst=%s) holds %v, the live links between the requested peers are %v", d.id, d.src, d.dst, got, want)}
		}
	}
	s.NoteState(dsim.HashStr(strings.Join(st, ";")))
	s.Count("probe:quiescent-directive-check")
	return nil
}

func (w *c04World) Invariant(s *dsim.Sim) *dsim.Violation {
	if w.viol != nil {
		return w.viol
	}
	return w.check(s)
}
func (w *c04World) Done(s *dsim.Sim) bool { return true }
func (w *c04World) Final(s *dsim.Sim, stuck bool) *dsim.Violation {
	if w.viol != nil {
		return w.viol
	}
	return w.check(s)
}
func (w *c04World) Teardown(s *dsim.Sim) {
	w.net.Close()
	for _, nd := range w.net.Nodes {
		nd.Shutdown()
	}
}

// headerBytes marshals a stream establish header the way the opener does: a varint
// length prefix followed by the StreamEstablish message (written independently of the
// unexported marshal function in the repository).
func headerBytes(pid protocol.ID) []byte {
	msg := transport_controller.NewStreamEstablish(pid)
	body, err := msg.MarshalVT()
	if err != nil {
		panic(err)
	}
	out := protobuf_go_lite.AppendVarint(nil, uint64(len(body)))
	return append(out, body...)
}
