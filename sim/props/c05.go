package props

import (
	"context"
	"fmt"
	"os"
	"time"

	"github.com/aperturerobotics/bifrost/link"
	"github.com/aperturerobotics/bifrost/tptaddr"
	"github.com/aperturerobotics/bifrost/transport/common/dialer"
	"github.com/aperturerobotics/controllerbus/directive"

	"verif/sim/dsim"
	"verif/sim/worlds/node"
	"verif/sim/worlds/pnet"
)

// C05: dialing a peer at an address yields a link to that peer or keeps retrying.
//
// World QUIC: three full nodes (real bus, peer controller, real transport controller whose
// transport is the real pconn/QUIC transport with real TLS over a simulated PacketConn on
// the simulator's datagram network). N dials; X is the wanted peer and owns address "ax";
// I is an impostor (an honest stack with another key) that the address-rebinding fault
// puts behind "ax" instead of X, before, during or after a dial. Requests: the
// controller's DialPeerAddr(X, "ax") and EstablishLinkWithPeer(X) with a static peer map.
// Faults: rebinding in both directions, packet loss / duplication / reordering /
// corruption (bounded), clock jumps (idle timeouts, dial backoff).
//
// Oracle: (1) every successful DialPeerAddr(X, …) returns a link whose authenticated
// remote peer is X; every value of an EstablishLinkWithPeer(X) request has remote peer X;
// (2) bounded liveness: after the last fault, with "ax" owned by X again and the impostor
// gone, a request for a link to X is satisfied within the horizon.
type c05World struct {
	s                *dsim.Sim
	net              *node.Net
	pn               *pnet.Net
	n, x, i, x2      *node.Node
	tn, tx, ti, tx2  *node.TC
	x2Dials          int
	cx, ci           *pnet.Conn
	dials            []*c05Dial
	ops              int
	maxOps           int
	loss             int
	viol             *dsim.Violation
	watch            *c05Watch
	impostorAnswered bool
	finalDial        *c05Dial
	finalAsked       bool
	final            *c05Watch
	healed           bool
	dialStr          string
	tptDirs          int
}

type c05Dial struct {
	id     int
	done   bool
	lnk    link.Link
	err    error
	cancel context.CancelFunc
}

type c05Watch struct {
	w    *c05World
	vals int
}

func (h *c05Watch) HandleValueAdded(_ directive.Instance, v directive.AttachedValue) {
	ml, ok := v.GetValue().(link.MountedLink)
	if !ok {
		return
	}
	h.vals++
	h.w.s.Count("done:directive-value")
	if ml.GetRemotePeer() != h.w.tx.P.ID {
		h.w.fail(&dsim.Violation{Property: "C05", Rule: "request-for-X-yielded-link-to-other-peer", Witness: "directive-value",
			Detail: fmt.Sprintf("EstablishLinkWithPeer(X) was given a link to %s", h.w.net.Names[ml.GetRemotePeer().String()])})
	}
}
func (h *c05Watch) HandleValueRemoved(directive.Instance, directive.AttachedValue) {}

// c05TptWatch watches a DialTptAddr(address, N, want) directive: every value must be a
// link to want.
type c05TptWatch struct {
	w        *c05World
	want     *node.TC
	wantName string
}

func (h *c05TptWatch) HandleValueAdded(_ directive.Instance, v directive.AttachedValue) {
	l, ok := v.GetValue().(link.Link)
	if !ok {
		return
	}
	h.w.s.Count("done:dial-tptaddr-value")
	if l.GetRemotePeer() != h.want.P.ID {
		h.w.fail(&dsim.Violation{Property: "C05", Rule: "dial-for-X-returned-link-to-other-peer", Witness: "DialTptAddr",
			Detail: fmt.Sprintf("DialTptAddr(%s at %q) was given a link whose authenticated remote peer is %s", h.wantName, h.w.dialStr, h.w.net.Names[l.GetRemotePeer().String()])})
	}
}
func (h *c05TptWatch) HandleValueRemoved(directive.Instance, directive.AttachedValue) {}
func (h *c05TptWatch) HandleInstanceDisposed(directive.Instance)                      {}
func (h *c05Watch) HandleInstanceDisposed(directive.Instance)                         {}

func init() {
	register(&Spec{
		ID: "C05", World: "QUIC",
		New:        func() dsim.World { return &c05World{} },
		Cfg:        dsim.Config{MaxChaosSteps: 400, MaxStableSteps: 60000, Horizon: 5 * time.Minute},
		Real:       []string{"transport/controller.Controller (DialPeerAddr, link dialers, EstablishLinkWithPeer resolver, flushEstablishedLink dialer restart)", "transport/common/dialer.Dialer (backoff retry)", "tptaddr.DialTptAddr directive and its resolver in the transport controller", "transport/common/pconn.Transport, transport/common/quic (Transport.DialPeer, Dialer, HandleSession, Link)", "crypto/tls identity + certificate verification", "quic-go v0.59 and crypto/tls handshakes", "controllerbus, peer controller"},
		Stub:       []string{"net.PacketConn is a simulator-owned datagram endpoint (worlds/pnet): delivery order, loss, duplication, corruption and address binding are driver decisions", "websocket and WebRTC dial paths are not run (real sockets / pion)"},
		FaultKinds: []string{"fault:address-rebind-to-impostor", "fault:address-rebind-to-owner", "fault:packet-loss", "fault:packet-dup", "fault:packet-reorder", "fault:packet-corrupt", "fault:clock-jump", "fault:dial-cancel", "fault:concurrent-dial-other-peer", "fault:alias-dial-string", "fault:peer-linked-through-another-address"},
	})
}

func (w *c05World) fail(v *dsim.Violation) {
	if w.viol == nil {
		w.viol = v
	}
}

func (w *c05World) Setup(s *dsim.Sim) {
	w.s = s
	t := s.Tape
	w.net = node.NewNet(s)
	w.pn = pnet.New(s)
	w.n = w.net.AddNode("N", "N")
	w.x = w.net.AddNode("X", "X")
	w.i = w.net.AddNode("I", "I")
	xid := w.net.Party("X").IDs
	// in some runs the configured dial string is an alias spelling of the address
	w.dialStr = "ax"
	if t.Bool(1, 3, "alias-address") {
		w.dialStr = "@ax"
		s.Count("fault:alias-dial-string")
	}
	static := map[string]*dialer.DialerOpts{xid: {Address: w.dialStr}}
	w.cx = w.pn.Listen("X", "ax")
	w.ci = w.pn.Listen("I", "ax") // same address: reachable only while bound
	w.pn.Rebind("ax", w.cx)
	cn := w.pn.Listen("N", "an")
	onEst := func(who string) func(l link.Link) {
		return func(l link.Link) {
			s.Logf("link-established at %s: remote=%s", who, w.net.Names[l.GetRemotePeer().String()])
		}
	}
	w.tn = w.n.AddQuicTransport("tn", "N", cn, static, onEst("N"))
	w.tx = w.x.AddQuicTransport("tx", "X", w.cx, nil, onEst("X"))
	w.ti = w.i.AddQuicTransport("ti", "I", w.ci, nil, onEst("I"))
	// X is also reachable through a second endpoint of its own (same identity, another
	// address): N may hold a link to X that does not go through "ax"
	w.x2 = w.net.AddNode("X2", "X")
	w.tx2 = w.x2.AddQuicTransport("tx2", "X", w.pn.Listen("X2", "ax2"), nil, onEst("X2"))
	for _, tc := range []*node.TC{w.tn, w.tx, w.ti, w.tx2} {
		tc := tc
		tc.Rec.OnLost = func(l link.Link) {
			s.Logf("link-lost at %s: remote=%s", tc.P.Name, w.net.Names[l.GetRemotePeer().String()])
		}
	}
	w.maxOps = 2 + t.Draw(8, "max-ops")
	w.loss = t.Draw(6, "loss-budget")
	if t.Bool(1, 3, "start-with-impostor") {
		w.pn.Rebind("ax", w.ci)
		s.Count("fault:address-rebind-to-impostor")
	}
	if t.Bool(1, 2, "directive") {
		w.watch = &c05Watch{w: w}
		_, _, _ = w.n.Bus.AddDirective(link.NewEstablishLinkWithPeer("", w.tx.P.ID), w.watch)
	}
}

func (w *c05World) dial() *c05Dial { return w.dialFor(w.tx, "X") }

// dialFor dials address "ax" requiring the remote peer to be the identity of want.
func (w *c05World) dialFor(want *node.TC, wantName string) *c05Dial {
	s := w.s
	d := &c05Dial{id: len(w.dials)}
	w.dials = append(w.dials, d)
	ctx, cancel := context.WithCancel(w.n.Ctx())
	d.cancel = cancel
	s.Logf("dial #%d %s@ax (ax is served by %s)", d.id, wantName, w.pn.BoundName("ax"))
	go func() {
		lnk, err := w.tn.Ctrl.DialPeerAddr(ctx, want.P.ID, &dialer.DialerOpts{Address: w.dialStr})
		d.done, d.lnk, d.err = true, lnk, err
		who := "-"
		if lnk != nil {
			who = w.net.Names[lnk.GetRemotePeer().String()]
		}
		s.Logf("dial #%d returned link-to=%s err=%v", d.id, who, err)
		if err == nil && lnk != nil {
			s.Count("done:dial")
			if lnk.GetRemotePeer() != want.P.ID {
				w.fail(&dsim.Violation{Property: "C05", Rule: "dial-for-X-returned-link-to-other-peer", Witness: "DialPeerAddr",
					Detail: fmt.Sprintf("DialPeerAddr(%s, \"ax\") reported success with a link whose authenticated remote peer is %s", wantName, who)})
			}
		}
	}()
	return d
}

func (w *c05World) Actions(s *dsim.Sim, add func(dsim.Action)) {
	faults := s.Phase == dsim.PhaseChaos
	w.pn.Actions(add, faults, &w.loss)
	if s.Phase == dsim.PhaseStable {
		if !w.healed {
			add(dsim.Action{Name: "3op:heal", Fire: func() {
				w.healed = true
				// the owner is back behind its address and the impostor goes away
				w.pn.Rebind("ax", w.cx)
				w.i.Shutdown()
				_ = w.ci.Close()
				s.Logf("healed: ax served by X, impostor gone")
			}})
			return
		}
		if !w.finalAsked && w.pn.InTransit() == 0 {
			add(dsim.Action{Name: "3op:final-request", Fire: func() {
				// the canonical request for a link to X: EstablishLinkWithPeer with the static
				// peer map telling the transport to dial "ax"
				w.finalAsked = true
				w.final = &c05Watch{w: w}
				_, _, _ = w.n.Bus.AddDirective(link.NewEstablishLinkWithPeer("", w.tx.P.ID), w.final)
				s.Logf("final request EstablishLinkWithPeer(X)")
			}})
		}
		return
	}
	if w.ops >= w.maxOps {
		return
	}
	pending := 0
	for _, d := range w.dials {
		if !d.done {
			pending++
		}
	}
	if pending < 2 {
		add(dsim.Action{Name: "3op:dial", Weight: 6, Fire: func() { w.ops++; w.dial() }})
		// another caller wants the impostor's identity at the same address (its dial shares
		// the transport's per-address dialer with a dial for X that is in flight)
		// the same requests as DialTptAddr directives (two of them live at once for different
		// target peers at one address)
		if w.tptDirs < 3 {
			for _, tg := range []struct {
				tc *node.TC
				nm string
			}{{w.tx, "X"}, {w.ti, "I"}} {
				tg := tg
				add(dsim.Action{Name: "3op:dial-tptaddr:" + tg.nm, Weight: 2, Fire: func() {
					w.ops++
					w.tptDirs++
					s.Logf("DialTptAddr(%s@%s)", tg.nm, w.dialStr)
					_, _, _ = w.n.Bus.AddDirective(tptaddr.NewDialTptAddr(&dialer.DialerOpts{Address: "sim|" + w.dialStr}, w.tn.P.ID, tg.tc.P.ID), &c05TptWatch{w: w, want: tg.tc, wantName: tg.nm})
				}})
			}
		}
		if w.x2Dials < 1 {
			add(dsim.Action{Name: "3op:X-dials-N-from-its-other-address", Weight: 2, Fire: func() {
				w.ops++
				w.x2Dials++
				s.Count("fault:peer-linked-through-another-address")
				ctx, cancel := context.WithTimeout(w.x2.Ctx(), 60*time.Second)
				go func() {
					defer cancel()
					_, _ = w.tx2.Ctrl.DialPeerAddr(ctx, w.tn.P.ID, &dialer.DialerOpts{Address: "an"})
				}()
			}})
		}
		add(dsim.Action{Name: "3op:dial-for-other-peer", Weight: 2, Fire: func() { w.ops++; s.Count("fault:concurrent-dial-other-peer"); w.dialFor(w.ti, "I") }})
	}
	for _, d := range w.dials {
		d := d
		if !d.done {
			add(dsim.Action{Name: fmt.Sprintf("5flt:cancel-dial:%d", d.id), Weight: 1, Fault: true, Fire: func() {
				w.ops++
				s.Count("fault:dial-cancel")
				d.cancel()
			}})
		}
	}
	if w.pn.BoundName("ax") == "X" {
		add(dsim.Action{Name: "5flt:rebind-to-impostor", Weight: 3, Fault: true, Fire: func() {
			w.ops++
			s.Count("fault:address-rebind-to-impostor")
			w.pn.Rebind("ax", w.ci)
		}})
	} else {
		add(dsim.Action{Name: "5flt:rebind-to-owner", Weight: 3, Fault: true, Fire: func() {
			w.ops++
			s.Count("fault:address-rebind-to-owner")
			w.pn.Rebind("ax", w.cx)
		}})
	}
}

func (w *c05World) Invariant(s *dsim.Sim) *dsim.Violation { return w.viol }

func (w *c05World) Done(s *dsim.Sim) bool {
	return w.final != nil && w.final.vals > 0
}

func (w *c05World) Final(s *dsim.Sim, stuck bool) *dsim.Violation {
	if w.viol != nil {
		return w.viol
	}
	if w.final == nil {
		s.Inconclusive = "harness: final request not issued"
		return nil
	}
	if w.final.vals == 0 {
		dbg := ""
		if os.Getenv("DSIM_DEBUG") != "" {
			for _, tc := range []*node.TC{w.tn, w.tx} {
				u, p := tc.Ctrl.VerifLinks()
				for k, l := range u {
					dbg += fmt.Sprintf("\nDEBUG %s byUUID %d -> remote=%s closed=%v", tc.Name, k, w.net.Names[l.GetRemotePeer().String()], closed(l))
				}
				for k, ls := range p {
					dbg += fmt.Sprintf("\nDEBUG %s byPeer %s -> %d links", tc.Name, w.net.Names[k], len(ls))
				}
				for _, a := range []string{"ax", "an"} {
					if l, ok := tc.Quic.LookupLinkWithAddr(a); ok {
						dbg += fmt.Sprintf("\nDEBUG %s transport addr %s -> remote=%s closed=%v", tc.Name, a, w.net.Names[l.GetRemotePeer().String()], closed(l))
					}
				}
			}
		}
		if !stuck {
			s.Inconclusive = "horizon reached while the system was still busy"
			return nil
		}
		return &dsim.Violation{Property: "C05", Rule: "request-for-X-never-satisfied", Witness: "after-heal",
			Detail: "after the last fault X owns its address again and the impostor is gone, but EstablishLinkWithPeer(X) had no value when the system went quiescent for the whole horizon" + dbg}
	}
	s.Count("done:final-request")
	return nil
}

func (w *c05World) Teardown(s *dsim.Sim) {
	w.net.Close()
	for _, nd := range w.net.Nodes {
		nd.Shutdown()
	}
	w.pn.CloseAll()
	_ = w.cx.Close()
	_ = w.ci.Close()
}
