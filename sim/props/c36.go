package props

import (
	"context"
	"fmt"
	"io"
	"strings"
	"time"

	core_test "github.com/aperturerobotics/bifrost/core/test"
	bifrost_rpc "github.com/aperturerobotics/bifrost/rpc"
	bifrost_rpc_access "github.com/aperturerobotics/bifrost/rpc/access"
	"github.com/aperturerobotics/controllerbus/bus"
	"github.com/aperturerobotics/controllerbus/controller"
	"github.com/aperturerobotics/controllerbus/directive"
	"github.com/aperturerobotics/starpc/srpc"
	"github.com/blang/semver/v4"
	"github.com/sirupsen/logrus"

	"verif/sim/dsim"
)

// C36 (availability clause): remote RPC lookups report service availability faithfully.
//
// World NODE (one bus): the real AccessRpcServiceServer.LookupRpcService runs against a
// real controllerbus bus and writes to a harness stream. 0-3 provider controllers that
// resolve LookupRpcService for the requested service are added to and removed from the bus
// over time (in tape order, with fake time passing in between); other providers for a
// different service id come and go as noise; finally the stream is cancelled.
//
// Some providers are slow: their resolver stays busy until the driver lets it finish, so the
// directive goes busy and idle again over time. The response stream exerts back-pressure:
// Send is a scheduling point, so providers come and go while the server is blocked in it.
//
// Oracle: the response stream projected on exists/removed strictly alternates and starts
// with exists; at every quiescent point (server not blocked in Send) the last
// exists/removed message says "exists" iff at least one matching provider has produced its
// value and is still registered, and the last idle message equals the idle state of the
// directive (ground truth: an idle callback of the harness on the same directive instance);
// idle messages never repeat the same value twice in a row. The component-ID round trip is
// probed too, as a history (pairs of requests whose naive concatenations collide, encoded
// one after the other in one process), although on the unchanged tree it is a pure function.
type c36World struct {
	s         *dsim.Sim
	b         bus.Bus
	ctx       context.Context
	cancel    context.CancelFunc
	strm      *c36Stream
	provs     []*c36Prov
	ops       int
	maxOps    int
	viol      *dsim.Violation
	done      bool
	retErr    error
	sctx      context.Context
	scan      context.CancelFunc
	idleSince time.Duration
	sending   int  // server goroutines inside Send
	truthIdle bool // idle state of the directive as the bus reports it to the harness
	truthRel  func()
	rtN       int
}

type c36Prov struct {
	id      int
	service string
	rel     func()
	live    bool
	slow    bool
	foreign bool          // attaches a non-invoker value to the lookup directive
	release chan struct{} // closed by the driver: the slow resolver may finish
	freed   bool
	valued  bool // its value has been handed to the directive
	w       *c36World
}

// c36SlowRes is a resolver that stays busy until the driver releases it.
type c36SlowRes struct{ p *c36Prov }

func (r *c36SlowRes) Resolve(ctx context.Context, h directive.ResolverHandler) error {
	select {
	case <-ctx.Done():
		return ctx.Err()
	case <-r.p.release:
	}
	if _, ok := h.AddValue(bifrost_rpc.LookupRpcServiceValue(r.p)); ok {
		r.p.valued = true
	}
	return nil
}

func (p *c36Prov) GetControllerInfo() *controller.Info {
	return controller.NewInfo(fmt.Sprintf("verif/provider/%d", p.id), semver.MustParse("0.0.1"), "provider")
}
func (p *c36Prov) Execute(ctx context.Context) error { return nil }
func (p *c36Prov) Close() error                      { return nil }
func (p *c36Prov) HandleDirective(ctx context.Context, di directive.Instance) ([]directive.Resolver, error) {
	d, ok := di.GetDirective().(bifrost_rpc.LookupRpcService)
	if !ok || d.LookupRpcServiceID() != p.service {
		return nil, nil
	}
	if p.foreign {
		// a resolver that attaches a value which is not an rpc invoker (the lookup server
		// must ignore it, when it comes and when it goes)
		return directive.R(directive.NewValueResolver([]string{"not-an-invoker"}), nil)
	}
	if p.slow {
		return directive.R(&c36SlowRes{p}, nil)
	}
	p.valued = true
	return directive.R(bifrost_rpc.NewLookupRpcServiceResolver(p), nil)
}
func (p *c36Prov) InvokeMethod(serviceID, methodID string, strm srpc.Stream) (bool, error) {
	return false, nil
}

type c36Stream struct {
	w   *c36World
	ctx context.Context
	seq []string // "E", "R", "I+", "I-"
}

func (s *c36Stream) Context() context.Context       { return s.ctx }
func (s *c36Stream) MsgSend(msg srpc.Message) error { return nil }
func (s *c36Stream) MsgRecv(msg srpc.Message) error { return io.EOF }
func (s *c36Stream) CloseSend() error               { return nil }
func (s *c36Stream) Close() error                   { return nil }
func (s *c36Stream) SendAndClose(m *bifrost_rpc_access.LookupRpcServiceResponse) error {
	return s.Send(m)
}
func (s *c36Stream) Send(m *bifrost_rpc_access.LookupRpcServiceResponse) error {
	if s.ctx.Err() != nil {
		return context.Canceled
	}
	w := s.w
	w.sending++
	st := w.s.Step
	w.s.Yield("harness/stream-send", "")
	if w.s.Step != st {
		w.s.Count("fault:send-back-pressure")
	}
	w.sending--
	if s.ctx.Err() != nil {
		return context.Canceled
	}
	k := "I-"
	switch {
	case m.GetExists():
		k = "E"
	case m.GetRemoved():
		k = "R"
	case m.GetIdle():
		k = "I+"
	}
	s.seq = append(s.seq, k)
	w.s.Logf("response %s", k)
	w.s.Count("done:response")
	// alternation
	var lastER, lastI string
	for _, x := range s.seq[:len(s.seq)-1] {
		if x == "E" || x == "R" {
			lastER = x
		} else {
			lastI = x
		}
	}
	switch k {
	case "E", "R":
		if k == lastER || (lastER == "" && k == "R") {
			w.fail(&dsim.Violation{Property: "C36", Rule: "exists-removed-not-alternating", Witness: lastER + "->" + k,
				Detail: fmt.Sprintf("response sequence %v", s.seq)})
		}
	default:
		if k == lastI {
			w.fail(&dsim.Violation{Property: "C36", Rule: "idle-state-repeated", Witness: k, Detail: fmt.Sprintf("response sequence %v", s.seq)})
		}
	}
	return nil
}

func init() {
	register(&Spec{
		ID: "C36", World: "NODE",
		New:        func() dsim.World { return &c36World{} },
		Cfg:        dsim.Config{MaxChaosSteps: 60, MaxStableSteps: 2000, Horizon: 5 * time.Second},
		Real:       []string{"rpc/access.AccessRpcServiceServer.LookupRpcService", "rpc.LookupRpcService directive", "controllerbus bus + directive controller (value add/remove, idle callbacks)"},
		Stub:       []string{"the response stream is a harness object", "provider controllers are harness controllers resolving the directive with an inert invoker"},
		FaultKinds: []string{"fault:provider-removed", "fault:noise-provider", "fault:slow-resolver", "fault:foreign-value-provider", "fault:send-back-pressure", "fault:stream-cancel", "fault:clock-jump"},
		Notes:      []string{"availability and idle clauses decided against the bus; the component-ID round trip is probed as a short history of encodings (a pure function on the unchanged tree)"},
	})
}

func (w *c36World) fail(v *dsim.Violation) {
	if w.viol == nil {
		w.viol = v
	}
}

func (w *c36World) Setup(s *dsim.Sim) {
	w.s = s
	lg := logrus.New()
	lg.SetOutput(io.Discard)
	w.ctx, w.cancel = context.WithCancel(context.Background())
	b, _, err := core_test.NewTestingBus(w.ctx, logrus.NewEntry(lg))
	if err != nil {
		panic(err)
	}
	w.b = b
	w.maxOps = 2 + s.Tape.Draw(12, "max-ops")
	w.sctx, w.scan = context.WithCancel(w.ctx)
	w.strm = &c36Stream{w: w, ctx: w.sctx}
	// ground truth for the idle clause: the harness holds its own reference to the same
	// (de-duplicated) directive instance and listens to its idle state
	di, ref, err := b.AddDirective(bifrost_rpc.NewLookupRpcService("svc", ""), nil)
	if err != nil {
		panic(err)
	}
	relIdle := di.AddIdleCallback(func(isIdle bool, _ []error) { w.truthIdle = isIdle })
	w.truthRel = func() { relIdle(); ref.Release() }
	s.ArmFraction([]int{100, 60, 0}[s.Tape.Draw(3, "arm-pct")], []string{"harness/stream-send"})
	srv := bifrost_rpc_access.NewAccessRpcServiceServer(b, false, nil)
	go func() {
		w.retErr = srv.LookupRpcService(&bifrost_rpc_access.LookupRpcServiceRequest{ServiceId: "svc"}, w.strm)
		w.done = true
		s.Logf("lookup returned: %v", w.retErr)
	}()
}

func (w *c36World) liveMatching() int {
	n := 0
	for _, p := range w.provs {
		if p.live && p.service == "svc" && p.valued && !p.foreign {
			n++
		}
	}
	return n
}

func (w *c36World) Actions(s *dsim.Sim, add func(dsim.Action)) {
	if s.Phase == dsim.PhaseStable || w.ops >= w.maxOps || w.done {
		if w.idleSince == 0 {
			w.idleSince = s.Now() + 1
		}
		return
	}
	t := s.Tape
	nlive := 0
	for _, p := range w.provs {
		if p.live {
			nlive++
		}
	}
	if nlive < 4 {
		add(dsim.Action{Name: "3op:add-provider", Weight: 6, Fire: func() {
			w.ops++
			p := &c36Prov{id: len(w.provs), service: "svc", live: true, w: w, release: make(chan struct{})}
			if t.Bool(1, 4, "noise") {
				p.service = "other"
				s.Count("fault:noise-provider")
			} else if t.Bool(1, 3, "slow") {
				p.slow = true
				s.Count("fault:slow-resolver")
			} else if t.Bool(1, 4, "foreign-value") {
				p.foreign = true
				s.Count("fault:foreign-value-provider")
			}
			rel, err := w.b.AddController(w.ctx, p, nil)
			if err != nil {
				panic(err)
			}
			p.rel = rel
			w.provs = append(w.provs, p)
			s.Logf("add provider #%d (%s)", p.id, p.service)
		}})
	}
	for _, p := range w.provs {
		p := p
		if p.live {
			add(dsim.Action{Name: fmt.Sprintf("3op:remove-provider:%d", p.id), Weight: 3, Fire: func() {
				w.ops++
				s.Count("fault:provider-removed")
				p.live = false
				p.rel()
				s.Logf("remove provider #%d", p.id)
			}})
		}
	}
	for _, p := range w.provs {
		p := p
		if p.live && p.slow && !p.freed {
			add(dsim.Action{Name: fmt.Sprintf("3op:finish-resolve:%d", p.id), Weight: 4, Fire: func() {
				w.ops++
				p.freed = true
				close(p.release)
				s.Logf("slow resolver of provider #%d may finish", p.id)
			}})
		}
	}
	add(dsim.Action{Name: "3op:component-id", Weight: 1, Fire: func() { w.ops++; w.roundTrip() }})
	add(dsim.Action{Name: "5flt:cancel-stream", Weight: 1, Fault: true, Fire: func() {
		w.ops++
		s.Count("fault:stream-cancel")
		w.scan()
	}})
}

func (w *c36World) check(s *dsim.Sim) *dsim.Violation {
	if w.done || w.sctx.Err() != nil || w.sending > 0 || s.ParkedCount() > 0 {
		return nil
	}
	last, lastIdle := "", "I-"
	for _, x := range w.strm.seq {
		if x == "E" || x == "R" {
			last = x
		} else {
			lastIdle = x
		}
	}
	if (lastIdle == "I+") != w.truthIdle {
		return &dsim.Violation{Property: "C36", Rule: "idle-report!=directive-idle-state", Witness: fmt.Sprintf("reported=%v,actual=%v", lastIdle == "I+", w.truthIdle),
			Detail: fmt.Sprintf("the directive is idle=%v but the last idle report on the stream says %v; responses so far %v", w.truthIdle, lastIdle == "I+", w.strm.seq)}
	}
	want := w.liveMatching() > 0
	got := last == "E"
	s.NoteState(dsim.HashStr(fmt.Sprintf("%d|%s", w.liveMatching(), strings.Join(w.strm.seq, ""))))
	if want != got {
		kind := "provider-present-but-not-reported"
		if got {
			kind = "reported-but-no-provider"
		}
		return &dsim.Violation{Property: "C36", Rule: "availability-report!=providers", Witness: kind,
			Detail: fmt.Sprintf("%d matching providers are registered, the response stream so far is %v", w.liveMatching(), w.strm.seq)}
	}
	s.Count("probe:quiescent-availability-check")
	return nil
}

func (w *c36World) Invariant(s *dsim.Sim) *dsim.Violation {
	if w.viol != nil {
		return w.viol
	}
	// every driver step is a quiescent point of the bus (no parked tasks in this world),
	// but value changes need the directive controller's goroutines to have run: they have
	// (synctest.Wait), so the check applies at every step.
	return w.check(s)
}

func (w *c36World) Done(s *dsim.Sim) bool { return true }

func (w *c36World) Final(s *dsim.Sim, stuck bool) *dsim.Violation {
	if w.viol != nil {
		return w.viol
	}
	s.Count("done:final")
	return w.check(s)
}

// c36Groups: valid requests whose naive concatenations collide.
var c36Groups = [][][2]string{
	{{"rpc/echo", "v1"}, {"rpc", "echo/v1"}},
	{{"a", "b/c"}, {"a/b", "c"}},
	{{"a/", "b"}, {"a", "/b"}, {"a//b", ""}},
	{{"x\x00y", "z"}, {"x", "\x00yz"}},
	{{"svc", ""}, {"sv", "c"}},
}

// roundTrip encodes the requests of one collision group into component IDs one after the
// other (in a tape-chosen order) and decodes each back.
func (w *c36World) roundTrip() {
	s := w.s
	g := c36Groups[s.Tape.Draw(len(c36Groups), "rt-group")]
	off := s.Tape.Draw(len(g), "rt-first")
	for i := range g {
		pr := g[(i+off)%len(g)]
		req := bifrost_rpc_access.NewLookupRpcServiceRequest(pr[0], pr[1])
		if req.Validate() != nil {
			// single requests over the whole input domain are the pure-function part of the
			// property; this probe is about valid requests in sequence
			continue
		}
		id, err := req.MarshalComponentID()
		if err != nil {
			continue
		}
		out := &bifrost_rpc_access.LookupRpcServiceRequest{}
		if err := out.UnmarshalComponentID(id); err != nil {
			w.fail(&dsim.Violation{Property: "C36", Rule: "component-id-does-not-decode", Witness: "marshal-then-unmarshal", Detail: fmt.Sprintf("(%q,%q) encoded to %q: %v", pr[0], pr[1], id, err)})
			return
		}
		w.rtN++
		s.Count("done:component-id-roundtrip")
		if out.GetServiceId() != pr[0] || out.GetServerId() != pr[1] {
			w.fail(&dsim.Violation{Property: "C36", Rule: "component-id-decodes-to-other-request", Witness: "after-earlier-encodings",
				Detail: fmt.Sprintf("(%q,%q) encoded to %q decodes to (%q,%q) (round trip #%d of this run)", pr[0], pr[1], id, out.GetServiceId(), out.GetServerId(), w.rtN)})
			return
		}
	}
}

func (w *c36World) Teardown(s *dsim.Sim) {
	if w.truthRel != nil {
		w.truthRel()
	}
	for _, p := range w.provs {
		if p.live {
			p.rel()
		}
	}
	w.cancel()
}
