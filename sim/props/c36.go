package props

import (
	"context"
	"fmt"
	"io"
	"strings"
	"time"

	core_test "github.com/aperturerobotics/bifrost/core/test"
	bifrost_rpc "github.com/aperturerobotics/bifrost/rpc"
	bifrost_rpc_access "github.com/aperturerobotics/bifrost/rpc/access"
	"github.com/aperturerobotics/controllerbus/bus"
	"github.com/aperturerobotics/controllerbus/controller"
	"github.com/aperturerobotics/controllerbus/directive"
	"github.com/aperturerobotics/starpc/srpc"
	"github.com/blang/semver/v4"
	"github.com/sirupsen/logrus"

	"verif/sim/dsim"
)

// C36 (availability clause): remote RPC lookups report service availability faithfully.
//
// World NODE (one bus): the real AccessRpcServiceServer.LookupRpcService runs against a
// real controllerbus bus and writes to a harness stream. 0-3 provider controllers that
// resolve LookupRpcService for the requested service are added to and removed from the bus
// over time (in tape order, with fake time passing in between); other providers for a
// different service id come and go as noise; finally the stream is cancelled.
//
// Oracle: the response stream projected on exists/removed strictly alternates and starts
// with exists; at every quiescent point the last exists/removed message says "exists" iff
// at least one matching provider is registered; idle messages never repeat the same value
// twice in a row. The component-ID round-trip clause of the property is a pure function
// and is not decided here.
type c36World struct {
	s         *dsim.Sim
	b         bus.Bus
	ctx       context.Context
	cancel    context.CancelFunc
	strm      *c36Stream
	provs     []*c36Prov
	ops       int
	maxOps    int
	viol      *dsim.Violation
	done      bool
	retErr    error
	sctx      context.Context
	scan      context.CancelFunc
	idleSince time.Duration
}

type c36Prov struct {
	id      int
	service string
	rel     func()
	live    bool
}

func (p *c36Prov) GetControllerInfo() *controller.Info {
	return controller.NewInfo(fmt.Sprintf("verif/provider/%d", p.id), semver.MustParse("0.0.1"), "provider")
}
func (p *c36Prov) Execute(ctx context.Context) error { return nil }
func (p *c36Prov) Close() error                      { return nil }
func (p *c36Prov) HandleDirective(ctx context.Context, di directive.Instance) ([]directive.Resolver, error) {
	d, ok := di.GetDirective().(bifrost_rpc.LookupRpcService)
	if !ok || d.LookupRpcServiceID() != p.service {
		return nil, nil
	}
	return directive.R(bifrost_rpc.NewLookupRpcServiceResolver(p), nil)
}
func (p *c36Prov) InvokeMethod(serviceID, methodID string, strm srpc.Stream) (bool, error) {
	return false, nil
}

type c36Stream struct {
	w   *c36World
	ctx context.Context
	seq []string // "E", "R", "I+", "I-"
}

func (s *c36Stream) Context() context.Context       { return s.ctx }
func (s *c36Stream) MsgSend(msg srpc.Message) error { return nil }
func (s *c36Stream) MsgRecv(msg srpc.Message) error { return io.EOF }
func (s *c36Stream) CloseSend() error               { return nil }
func (s *c36Stream) Close() error                   { return nil }
func (s *c36Stream) SendAndClose(m *bifrost_rpc_access.LookupRpcServiceResponse) error {
	return s.Send(m)
}
func (s *c36Stream) Send(m *bifrost_rpc_access.LookupRpcServiceResponse) error {
	if s.ctx.Err() != nil {
		return context.Canceled
	}
	w := s.w
	k := "I-"
	switch {
	case m.GetExists():
		k = "E"
	case m.GetRemoved():
		k = "R"
	case m.GetIdle():
		k = "I+"
	}
	s.seq = append(s.seq, k)
	w.s.Logf("response %s", k)
	w.s.Count("done:response")
	// alternation
	var lastER, lastI string
	for _, x := range s.seq[:len(s.seq)-1] {
		if x == "E" || x == "R" {
			lastER = x
		} else {
			lastI = x
		}
	}
	switch k {
	case "E", "R":
		if k == lastER || (lastER == "" && k == "R") {
			w.fail(&dsim.Violation{Property: "C36", Rule: "exists-removed-not-alternating", Witness: lastER + "->" + k,
				Detail: fmt.Sprintf("response sequence %v", s.seq)})
		}
	default:
		if k == lastI {
			w.fail(&dsim.Violation{Property: "C36", Rule: "idle-state-repeated", Witness: k, Detail: fmt.Sprintf("response sequence %v", s.seq)})
		}
	}
	return nil
}

func init() {
	register(&Spec{
		ID: "C36", World: "NODE",
		New:        func() dsim.World { return &c36World{} },
		Cfg:        dsim.Config{MaxChaosSteps: 60, MaxStableSteps: 2000, Horizon: 5 * time.Second},
		Real:       []string{"rpc/access.AccessRpcServiceServer.LookupRpcService", "rpc.LookupRpcService directive", "controllerbus bus + directive controller (value add/remove, idle callbacks)"},
		Stub:       []string{"the response stream is a harness object", "provider controllers are harness controllers resolving the directive with an inert invoker"},
		FaultKinds: []string{"fault:provider-removed", "fault:noise-provider", "fault:stream-cancel", "fault:clock-jump"},
		Notes:      []string{"only the availability clause is decided; the component-ID round trip is a pure function"},
	})
}

func (w *c36World) fail(v *dsim.Violation) {
	if w.viol == nil {
		w.viol = v
	}
}

func (w *c36World) Setup(s *dsim.Sim) {
	w.s = s
	lg := logrus.New()
	lg.SetOutput(io.Discard)
	w.ctx, w.cancel = context.WithCancel(context.Background())
	b, _, err := core_test.NewTestingBus(w.ctx, logrus.NewEntry(lg))
	if err != nil {
		panic(err)
	}
	w.b = b
	w.maxOps = 2 + s.Tape.Draw(12, "max-ops")
	w.sctx, w.scan = context.WithCancel(w.ctx)
	w.strm = &c36Stream{w: w, ctx: w.sctx}
	srv := bifrost_rpc_access.NewAccessRpcServiceServer(b, false, nil)
	go func() {
		w.retErr = srv.LookupRpcService(&bifrost_rpc_access.LookupRpcServiceRequest{ServiceId: "svc"}, w.strm)
		w.done = true
		s.Logf("lookup returned: %v", w.retErr)
	}()
}

func (w *c36World) liveMatching() int {
	n := 0
	for _, p := range w.provs {
		if p.live && p.service == "svc" {
			n++
		}
	}
	return n
}

func (w *c36World) Actions(s *dsim.Sim, add func(dsim.Action)) {
	if s.Phase == dsim.PhaseStable || w.ops >= w.maxOps || w.done {
		if w.idleSince == 0 {
			w.idleSince = s.Now() + 1
		}
		return
	}
	t := s.Tape
	nlive := 0
	for _, p := range w.provs {
		if p.live {
			nlive++
		}
	}
	if nlive < 4 {
		add(dsim.Action{Name: "3op:add-provider", Weight: 6, Fire: func() {
			w.ops++
			p := &c36Prov{id: len(w.provs), service: "svc", live: true}
			if t.Bool(1, 4, "noise") {
				p.service = "other"
				s.Count("fault:noise-provider")
			}
			rel, err := w.b.AddController(w.ctx, p, nil)
			if err != nil {
				panic(err)
			}
			p.rel = rel
			w.provs = append(w.provs, p)
			s.Logf("add provider #%d (%s)", p.id, p.service)
		}})
	}
	for _, p := range w.provs {
		p := p
		if p.live {
			add(dsim.Action{Name: fmt.Sprintf("3op:remove-provider:%d", p.id), Weight: 3, Fire: func() {
				w.ops++
				s.Count("fault:provider-removed")
				p.live = false
				p.rel()
				s.Logf("remove provider #%d", p.id)
			}})
		}
	}
	add(dsim.Action{Name: "5flt:cancel-stream", Weight: 1, Fault: true, Fire: func() {
		w.ops++
		s.Count("fault:stream-cancel")
		w.scan()
	}})
}

func (w *c36World) check(s *dsim.Sim) *dsim.Violation {
	if w.done || w.sctx.Err() != nil {
		return nil
	}
	last := ""
	for _, x := range w.strm.seq {
		if x == "E" || x == "R" {
			last = x
		}
	}
	want := w.liveMatching() > 0
	got := last == "E"
	s.NoteState(dsim.HashStr(fmt.Sprintf("%d|%s", w.liveMatching(), strings.Join(w.strm.seq, ""))))
	if want != got {
		kind := "provider-present-but-not-reported"
		if got {
			kind = "reported-but-no-provider"
		}
		return &dsim.Violation{Property: "C36", Rule: "availability-report!=providers", Witness: kind,
			Detail: fmt.Sprintf("%d matching providers are registered, the response stream so far is %v", w.liveMatching(), w.strm.seq)}
	}
	s.Count("probe:quiescent-availability-check")
	return nil
}

func (w *c36World) Invariant(s *dsim.Sim) *dsim.Violation {
	if w.viol != nil {
		return w.viol
	}
	// every driver step is a quiescent point of the bus (no parked tasks in this world),
	// but value changes need the directive controller's goroutines to have run: they have
	// (synctest.Wait), so the check applies at every step.
	return w.check(s)
}

func (w *c36World) Done(s *dsim.Sim) bool { return true }

func (w *c36World) Final(s *dsim.Sim, stuck bool) *dsim.Violation {
	if w.viol != nil {
		return w.viol
	}
	s.Count("done:final")
	return w.check(s)
}

func (w *c36World) Teardown(s *dsim.Sim) {
	for _, p := range w.provs {
		if p.live {
			p.rel()
		}
	}
	w.cancel()
}
