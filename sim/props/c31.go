package props

import (
	"fmt"
	"time"

	"github.com/anishathalye/porcupine"
	"github.com/aperturerobotics/bifrost/link"
	link_solicit "github.com/aperturerobotics/bifrost/link/solicit"
	"github.com/aperturerobotics/bifrost/peer"
	"github.com/aperturerobotics/bifrost/protocol"
	"github.com/aperturerobotics/bifrost/stream"

	"verif/sim/dsim"
)

// C31 (part a, OBJ world): a solicited stream has at most one owner.
//
// The real value returned by link_solicit.NewSolicitMountedStream wraps a stub mounted
// stream that counts Close calls. 2-4 tasks issue AcceptMountedStream, Close and
// IsAccepted on the one value; every call parks at the armed scheduling points before
// its mutex acquisition (and, for Accept, after its unsynchronised error check), so the
// driver decides every interleaving.
//
// Oracles: (1) the recorded history (invoke/return stamped with the global event
// sequence number) is checked with porcupine against the sequential model
// {accepted, closed}: Accept -> stream | already-accepted | error-if-closed, Close ->
// true unless accepted, IsAccepted -> accepted; (2) at most one Accept ever returns the
// stream; (3) a stream that was handed out is never closed by the value (stub Close
// count stays 0), and an Accept that returns after a Close returned true never yields
// the stream.
type c31World struct {
	s      *dsim.Sim
	val    link_solicit.SolicitMountedStream
	strm   *c31Stream
	tasks  []*c31Task
	hist   []porcupine.Operation
	seq    int64
	viol   *dsim.Violation
	owners int
}

type c31Task struct {
	id   int
	ops  []string
	next int
	busy bool
}

type c31In struct{ Op string }
type c31Out struct {
	Stream, Already, Err bool // Accept
	Bool                 bool // Close / IsAccepted
}

// c31Stream: Close is a scheduling point (a real transport's stream Close may block for a
// while); the caller may be holding the value's mutex at that moment, which the runtime2
// overlay makes a durable wait for the others.
type c31Stream struct {
	closes int
	s      *dsim.Sim
}

func (c *c31Stream) Read(b []byte) (int, error)         { return 0, nil }
func (c *c31Stream) Write(b []byte) (int, error)        { return len(b), nil }
func (c *c31Stream) SetReadDeadline(t time.Time) error  { return nil }
func (c *c31Stream) SetWriteDeadline(t time.Time) error { return nil }
func (c *c31Stream) SetDeadline(t time.Time) error      { return nil }
func (c *c31Stream) Close() error {
	c.s.Yield("harness/stream-close", "")
	c.closes++
	return nil
}

type c31Mounted struct{ s *c31Stream }

func (m *c31Mounted) GetStream() stream.Stream     { return m.s }
func (m *c31Mounted) GetProtocolID() protocol.ID   { return "p" }
func (m *c31Mounted) GetOpenOpts() stream.OpenOpts { return stream.OpenOpts{} }
func (m *c31Mounted) GetPeerID() peer.ID           { return "" }
func (m *c31Mounted) GetLink() link.MountedLink    { return nil }

func init() {
	register(&Spec{
		ID: "C31", World: "OBJ",
		New:        func() dsim.World { return &c31Switch{} },
		Warm:       []func() dsim.World{func() dsim.World { return &c31World{} }, func() dsim.World { return &solicitWorld{prop: "C31"} }},
		Cfg:        dsim.Config{MaxChaosSteps: 80, MaxStableSteps: 500, Horizon: time.Minute},
		Real:       []string{"link/solicit.NewSolicitMountedStream value (AcceptMountedStream, Close, IsAccepted)", "part (b): link/solicit/controller.Controller.resolveMatch and the whole C30 stack"},
		Stub:       []string{"part (a): mounted stream stub that counts Close calls, no link, no controller", "part (b): two full nodes over a simlink pair (the C30 world) with several local solicitations matching one incoming stream"},
		FaultKinds: []string{"fault:preempted-between-check-and-lock"},
		Notes:      []string{"linearizability checked with porcupine v1.3.0; Unknown (timeout) is counted as inconclusive, never reported"},
	})
}

var c31Model = porcupine.Model{
	Init: func() interface{} { return [2]bool{false, false} }, // accepted, closed
	Step: func(state, input, output interface{}) (bool, interface{}) {
		st := state.([2]bool)
		in := input.(c31In)
		out := output.(c31Out)
		switch in.Op {
		case "accept":
			if st[1] {
				return out.Err && !out.Stream && !out.Already, st
			}
			if st[0] {
				return out.Already && !out.Stream && !out.Err, st
			}
			return out.Stream && !out.Already && !out.Err, [2]bool{true, false}
		case "close":
			if st[0] {
				return !out.Bool, st
			}
			return out.Bool, [2]bool{false, true}
		case "isaccepted":
			return out.Bool == st[0], st
		}
		return false, st
	},
	DescribeOperation: func(input, output interface{}) string {
		return fmt.Sprintf("%v -> %+v", input, output)
	},
}

func (w *c31World) Setup(s *dsim.Sim) {
	w.s = s
	t := s.Tape
	w.strm = &c31Stream{s: s}
	w.val = link_solicit.NewSolicitMountedStream(&c31Mounted{w.strm})
	s.ArmFraction([]int{100, 100, 60, 0}[t.Draw(4, "arm-pct")], []string{"solicit/mounted/", "harness/stream-close", "go:link/solicit/"})
	n := 2 + t.Draw(3, "tasks")
	for i := 0; i < n; i++ {
		tk := &c31Task{id: i}
		k := 1 + t.Draw(3, "ops")
		for j := 0; j < k; j++ {
			tk.ops = append(tk.ops, []string{"accept", "accept", "close", "isaccepted"}[t.Draw(4, "op")])
		}
		w.tasks = append(w.tasks, tk)
	}
}

func (w *c31World) run(tk *c31Task, op string) {
	s := w.s
	tk.busy = true
	w.seq++
	call := w.seq
	s.Logf("invoke t%d %s", tk.id, op)
	go func() {
		var out c31Out
		switch op {
		case "accept":
			ms, already, err := w.val.AcceptMountedStream()
			out = c31Out{Stream: ms != nil, Already: already, Err: err != nil}
			if ms != nil {
				w.owners++
			}
		case "close":
			out.Bool = w.val.(interface{ Close() bool }).Close()
		case "isaccepted":
			out.Bool = w.val.(interface{ IsAccepted() bool }).IsAccepted()
		}
		w.seq++
		w.hist = append(w.hist, porcupine.Operation{ClientId: tk.id, Input: c31In{op}, Call: call, Output: out, Return: w.seq})
		s.Logf("return t%d %s %+v", tk.id, op, out)
		s.Count("done:op")
		tk.busy = false
		if w.owners > 1 && w.viol == nil {
			w.viol = &dsim.Violation{Property: "C31", Rule: "two-owners", Witness: "two-accepts-returned-the-stream", Detail: "AcceptMountedStream handed the stream to two callers"}
		}
		if w.owners > 0 && w.strm.closes > 0 && w.viol == nil {
			w.viol = &dsim.Violation{Property: "C31", Rule: "accepted-stream-closed", Witness: "closed-and-handed-out",
				Detail: fmt.Sprintf("the stream was handed to an accepting caller and was also closed by the solicitation value (Close calls on the stream: %d)", w.strm.closes)}
		}
	}()
}

func (w *c31World) Actions(s *dsim.Sim, add func(dsim.Action)) {
	for _, tk := range w.tasks {
		if tk.busy || tk.next >= len(tk.ops) {
			continue
		}
		tk := tk
		add(dsim.Action{Name: fmt.Sprintf("3op:t%d", tk.id), Weight: 5, Fire: func() {
			op := tk.ops[tk.next]
			tk.next++
			w.run(tk, op)
		}})
	}
}

func (w *c31World) Invariant(s *dsim.Sim) *dsim.Violation { return w.viol }

func (w *c31World) Done(s *dsim.Sim) bool {
	for _, tk := range w.tasks {
		if tk.busy || tk.next < len(tk.ops) {
			return false
		}
	}
	return true
}

func (w *c31World) Final(s *dsim.Sim, stuck bool) *dsim.Violation {
	if w.viol != nil {
		return w.viol
	}
	if !w.Done(s) {
		s.Inconclusive = "harness: tasks unfinished"
		return nil
	}
	if s.Interleaved {
		s.Count("fault:preempted-between-check-and-lock")
	}
	res := porcupine.CheckOperationsTimeout(c31Model, w.hist, 10*time.Second)
	switch res {
	case porcupine.Illegal:
		d := ""
		for _, o := range w.hist {
			d += fmt.Sprintf("[t%d %v@%d -> %+v@%d] ", o.ClientId, o.Input, o.Call, o.Output, o.Return)
		}
		return &dsim.Violation{Property: "C31", Rule: "history-not-linearizable", Witness: "accept/close", Detail: d}
	case porcupine.Unknown:
		s.Inconclusive = "porcupine timeout"
	}
	s.Count("done:history-checked")
	return nil
}

func (w *c31World) Teardown(s *dsim.Sim) {}

// c31Switch picks per run between part (a) (the value object under concurrent callers)
// and part (b) (several local solicitations matching one stream inside the controller).
type c31Switch struct{ inner dsim.World }

func (w *c31Switch) Setup(s *dsim.Sim) {
	if s.Tape.Bool(1, 3, "part-b") {
		w.inner = &solicitWorld{prop: "C31"}
	} else {
		w.inner = &c31World{}
	}
	w.inner.Setup(s)
}
func (w *c31Switch) Actions(s *dsim.Sim, add func(dsim.Action)) { w.inner.Actions(s, add) }
func (w *c31Switch) Invariant(s *dsim.Sim) *dsim.Violation      { return w.inner.Invariant(s) }
func (w *c31Switch) Done(s *dsim.Sim) bool                      { return w.inner.Done(s) }
func (w *c31Switch) Final(s *dsim.Sim, stuck bool) *dsim.Violation {
	return w.inner.Final(s, stuck)
}
func (w *c31Switch) Teardown(s *dsim.Sim) { w.inner.Teardown(s) }
