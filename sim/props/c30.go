package props

import (
	"fmt"
	"sort"
	"strings"
	"time"

	"github.com/aperturerobotics/bifrost/link"
	link_solicit "github.com/aperturerobotics/bifrost/link/solicit"
	link_solicit_controller "github.com/aperturerobotics/bifrost/link/solicit/controller"
	"github.com/aperturerobotics/bifrost/peer"
	"github.com/aperturerobotics/bifrost/protocol"
	"github.com/aperturerobotics/controllerbus/directive"

	"verif/sim/dsim"
	"verif/sim/worlds/node"
)

// C30 (and the controller-level clause of C31): solicitations match only on identical
// protocol and context; a solicited stream has at most one owner.
//
// World NODE: two full nodes (real bus, peer controller, real transport controller over a
// simlink transport, real solicitation controller) joined by one simlink pair. On both
// nodes SolicitProtocol directives are added over time from small alphabets chosen so that
// the concatenation protocol||context collides across different pairs (("ab","c") vs
// ("a","bc") vs ("abc","")), with peer constraints (none / the partner / a stranger) and
// transport constraints (none / this transport / another one). Every value a directive
// receives is accepted at once; the accepted streams are identified by the simulator-owned
// stream pair they are ends of.
//
// C30 oracle: for every stream pair of which one end was handed to directive d1 on node 1
// and the other to d2 on node 2, d1 and d2 name the same protocol ID and the same context
// bytes and their constraints admit the link; at quiescence every class (protocol,
// context) that is solicited admissibly on both nodes has produced a stream handed out on
// both sides.
//
// C31 (b) oracle: each stream end is successfully accepted by at most one local directive.
type solicitWorld struct {
	prop        string
	s           *dsim.Sim
	net         *node.Net
	nodes       [2]*node.Node
	tcs         [2]*node.TC
	la, lb      *node.SimLink
	dirs        []*solDir
	ops         int
	withdrawals int
	maxOps      int
	viol        *dsim.Violation
	owners      map[*node.SimStream][]*solDir
	idleSince   time.Duration
}

type solDir struct {
	w       *solicitWorld
	side    int
	proto   string
	ctx     string
	peer    string // "", "partner", "stranger"
	tpt     string // "", "this", "other"
	id      int
	got     []*node.SimStream
	values  int
	already int
	// withdrawal (the application releases its solicitation)
	di           directive.Instance
	ref          directive.Reference
	withdrawn    bool
	disposed     bool
	disposedAt   time.Duration
	disposedStep int
	settled      bool // disposed, and the link has been quiet since
	counterpart  bool // since this directive exists, the other side had a same-class solicitation that was not settled-withdrawn
}

func (d *solDir) admits() bool {
	return d.peer != "stranger" && d.tpt != "other"
}

func (d *solDir) HandleValueAdded(_ directive.Instance, v directive.AttachedValue) {
	sms, ok := v.GetValue().(link_solicit.SolicitMountedStream)
	if !ok {
		return
	}
	w := d.w
	d.values++
	ms, already, err := sms.AcceptMountedStream()
	if already {
		d.already++
	}
	if err != nil || ms == nil {
		return
	}
	st, ok := ms.GetStream().(*node.SimStream)
	if !ok {
		return
	}
	if w.prop == "C30" && !d.counterpart && !d.withdrawn {
		w.fail(&dsim.Violation{Property: "C30", Rule: "matched-without-counterpart", Witness: "other-side-withdrew-earlier",
			Detail: fmt.Sprintf("solicitation (%q,%q) on node %d was handed a stream although, ever since it was made, the other node has had no solicitation for that protocol and context (the last one was withdrawn and the link had been quiet since)", clipTail(d.proto), clipTail(d.ctx), d.side+1)})
	}
	d.got = append(d.got, st)
	w.owners[st] = append(w.owners[st], d)
	w.s.Count("done:stream-accepted")
	w.s.Logf("accept side%d dir#%d (%q,%q) stream %s", d.side, d.id, d.proto, d.ctx, st.Name)
	if len(w.owners[st]) > 1 && w.prop == "C31" {
		o := w.owners[st]
		w.fail(&dsim.Violation{Property: "C31", Rule: "stream-accepted-by-two-directives", Witness: "several-matching-directives",
			Detail: fmt.Sprintf("stream end %s was handed to directive #%d (%q,%q,peer=%q) and to directive #%d (%q,%q,peer=%q) on the same node", st.Name, o[0].id, o[0].proto, o[0].ctx, o[0].peer, o[1].id, o[1].proto, o[1].ctx, o[1].peer)})
	}
	// the peer end: who owns it on the other node?
	w.pairCheck(st)
}
func (d *solDir) HandleValueRemoved(directive.Instance, directive.AttachedValue) {}
func (d *solDir) HandleInstanceDisposed(directive.Instance) {
	d.disposed = true
	d.disposedAt = d.w.s.Now()
	d.disposedStep = d.w.s.Step
}

func init() {
	register(&Spec{
		ID: "C30", World: "NODE",
		New:        func() dsim.World { return &solicitWorld{prop: "C30"} },
		Cfg:        dsim.Config{MaxChaosSteps: 140, MaxStableSteps: 30000, Horizon: 20 * time.Second},
		Real:       []string{"link/solicit/controller.Controller (link tracking, control stream exchange, hash computation, match evaluation, solicited stream opening and routing, resolveMatch)", "link/solicit hash functions and SolicitProtocol directive", "transport/controller.Controller, controllerbus, peer controller"},
		Stub:       []string{"simlink pair between the two nodes; byte delivery chunked by the driver"},
		FaultKinds: []string{"fault:colliding-concatenation", "fault:long-inputs-differing-in-tail", "fault:stranger-peer-constraint", "fault:other-transport-constraint", "fault:chunking", "fault:clock-jump", "fault:solicitation-withdrawn", "fault:solicited-after-other-side-withdrew"},
	})
}

func (w *solicitWorld) fail(v *dsim.Violation) {
	if w.viol == nil {
		w.viol = v
	}
}

func (w *solicitWorld) pairCheck(st *node.SimStream) {
	if w.prop != "C30" {
		return
	}
	for _, a := range w.owners[st] {
		for _, b := range w.owners[st.Other()] {
			if a.proto != b.proto || a.ctx != b.ctx {
				kind := "different-protocol-or-context"
				if a.proto+a.ctx == b.proto+b.ctx {
					kind = "split-ambiguity"
				}
				w.fail(&dsim.Violation{Property: "C30", Rule: "mismatched-solicitations-matched", Witness: kind,
					Detail: fmt.Sprintf("one stream joins solicitation (%q,%q) on node %d with solicitation (%q,%q) on node %d", clipTail(a.proto), clipTail(a.ctx), a.side+1, clipTail(b.proto), clipTail(b.ctx), b.side+1)})
				return
			}
			if !a.admits() || !b.admits() {
				w.fail(&dsim.Violation{Property: "C30", Rule: "constraint-ignored", Witness: "peer-or-transport-constraint",
					Detail: fmt.Sprintf("stream matched although a constraint excludes the link: node %d dir (%q,%q,peer=%s,tpt=%s), node %d dir (%q,%q,peer=%s,tpt=%s)", a.side+1, a.proto, a.ctx, a.peer, a.tpt, b.side+1, b.proto, b.ctx, b.peer, b.tpt)})
				return
			}
		}
	}
}

func (w *solicitWorld) Setup(s *dsim.Sim) {
	w.s = s
	t := s.Tape
	w.net = node.NewNet(s)
	w.owners = map[*node.SimStream][]*solDir{}
	for i, nm := range []string{"S1", "S2"} {
		nd := w.net.AddNode("N"+nm[1:], nm)
		w.nodes[i] = nd
		w.tcs[i] = nd.AddTransport("t"+nm[1:], nm)
		c, err := link_solicit_controller.NewController(w.net.Log, &link_solicit_controller.Config{})
		if err != nil {
			panic(err)
		}
		nd.AddController(c)
	}
	_, _, _ = w.nodes[0].Bus.AddDirective(link.NewEstablishLinkWithPeer(w.tcs[0].P.ID, w.tcs[1].P.ID), nil)
	_, _, _ = w.nodes[1].Bus.AddDirective(link.NewEstablishLinkWithPeer(w.tcs[1].P.ID, w.tcs[0].P.ID), nil)
	w.la, w.lb = w.net.NewLinkPair(w.tcs[0].Tpt, w.tcs[1].Tpt, "L", 900)
	w.maxOps = 2 + t.Draw(9, "max-ops")
	w.la.ReportEstablished()
	w.lb.ReportEstablished()
}

var solProtos = []string{"ab", "a", "abc", "p"}
var solCtxs = []string{"c", "bc", "", "x"}

func (w *solicitWorld) addDir(side int) {
	s := w.s
	t := s.Tape
	d := &solDir{w: w, side: side, id: len(w.dirs)}
	// bias toward the colliding family; sometimes long inputs that differ only in the tail
	if t.Bool(1, 5, "long-inputs") {
		long := strings.Repeat("z", 300)
		if t.Bool(1, 2, "long-proto") {
			d.proto, d.ctx = "lp/"+long+[]string{"1", "2"}[t.Draw(2, "tail")], "c"
		} else {
			d.proto, d.ctx = "lp", long+[]string{"1", "2"}[t.Draw(2, "tail")]
		}
		s.Count("fault:long-inputs-differing-in-tail")
	} else if t.Bool(2, 3, "colliding") {
		k := t.Draw(3, "family")
		d.proto, d.ctx = []string{"ab", "a", "abc"}[k], []string{"c", "bc", ""}[k]
	} else {
		d.proto, d.ctx = solProtos[t.Draw(len(solProtos), "proto")], solCtxs[t.Draw(len(solCtxs), "ctx")]
	}
	d.peer = []string{"", "", "partner", "stranger"}[t.Draw(4, "peer-constraint")]
	d.tpt = []string{"", "", "this", "other"}[t.Draw(4, "tpt-constraint")]
	// sometimes: exactly what the other side solicited and has withdrawn since
	for _, o := range w.dirs {
		if o.side != side && o.settled && o.admits() && t.Bool(1, 2, "resolicit-withdrawn") {
			d.proto, d.ctx, d.peer, d.tpt = o.proto, o.ctx, "", ""
			s.Count("fault:solicited-after-other-side-withdrew")
			break
		}
	}
	for _, o := range w.dirs {
		if o.side == side && o.proto == d.proto && o.ctx == d.ctx && o.peer == d.peer {
			return // would be de-duplicated into the existing directive
		}
		if o.side != side && o.proto+o.ctx == d.proto+d.ctx && (o.proto != d.proto) {
			s.Count("fault:colliding-concatenation")
		}
	}
	var pid peer.ID
	switch d.peer {
	case "partner":
		pid = w.tcs[1-side].P.ID
	case "stranger":
		pid = w.net.Party("X").ID
		s.Count("fault:stranger-peer-constraint")
	}
	var tid uint64
	switch d.tpt {
	case "this":
		tid = w.tcs[side].Tpt.GetUUID()
	case "other":
		tid = 424242
		s.Count("fault:other-transport-constraint")
	}
	// counterpart bookkeeping (both directions)
	for _, o := range w.dirs {
		// (same concatenation: solicitations whose protocol||context coincide share a hash,
		// which is the known finding S-8a and is reported by its own rules)
		if o.side != side && o.proto+o.ctx == d.proto+d.ctx {
			if !o.settled {
				d.counterpart = true
			}
			if !o.withdrawn {
				o.counterpart = true
			}
		}
	}
	w.dirs = append(w.dirs, d)
	s.Logf("solicit side%d dir#%d (%q,%q) peer=%s tpt=%s", side, d.id, clip(d.proto), clip(d.ctx), d.peer, d.tpt)
	di, ref, err := w.nodes[side].Bus.AddDirective(link_solicit.NewSolicitProtocol(protocol.ID(d.proto), []byte(d.ctx), pid, tid), d)
	if err != nil {
		panic(err)
	}
	d.di, d.ref = di, ref
	// (a released reference's handler is not told about the disposal: ask the instance)
	di.AddDisposeCallback(func() {
		d.disposed = true
		d.disposedAt = s.Now()
		d.disposedStep = s.Step
	})
}

func (w *solicitWorld) Actions(s *dsim.Sim, add func(dsim.Action)) {
	w.net.Actions(add)
	if s.Phase == dsim.PhaseStable {
		if !w.net.Idle() || s.ParkedCount() > 0 {
			w.idleSince = 0
		} else if w.idleSince == 0 {
			w.idleSince = s.Now() + 1
		}
		return
	}
	if w.ops >= w.maxOps {
		return
	}
	// settle withdrawals: disposed, nothing in flight, and half a second of quiet
	for _, d := range w.dirs {
		if d.withdrawn && d.disposed && !d.settled && w.net.Idle() && s.ParkedCount() == 0 && s.Step > d.disposedStep+1 {
			d.settled = true
			s.Logf("withdrawal of dir#%d settled", d.id)
		}
	}
	if w.prop == "C30" && w.withdrawals < 2 {
		for _, d := range w.dirs {
			d := d
			if d.withdrawn || d.ref == nil {
				continue
			}
			add(dsim.Action{Name: fmt.Sprintf("3op:withdraw:%d", d.id), Weight: 2, Fire: func() {
				w.ops++
				w.withdrawals++
				s.Count("fault:solicitation-withdrawn")
				d.withdrawn = true
				d.ref.Release()
				// (Close skips the directive's 10 s hold-open, as an application that is done may)
				d.di.Close()
				s.Logf("withdraw dir#%d side%d (%q,%q)", d.id, d.side, clip(d.proto), clip(d.ctx))
			}})
		}
	}
	for side := 0; side < 2; side++ {
		side := side
		add(dsim.Action{Name: fmt.Sprintf("3op:solicit:%d", side), Weight: 6, Fire: func() { w.ops++; w.addDir(side) }})
	}
}

func (w *solicitWorld) Invariant(s *dsim.Sim) *dsim.Violation { return w.viol }

func (w *solicitWorld) Done(s *dsim.Sim) bool {
	return w.idleSince != 0 && s.Now()-w.idleSince >= time.Second
}

func (w *solicitWorld) Final(s *dsim.Sim, stuck bool) *dsim.Violation {
	if w.viol != nil {
		return w.viol
	}
	if w.prop != "C30" {
		s.Count("done:final")
		return nil
	}
	if w.la.IsClosed() || w.lb.IsClosed() {
		s.Inconclusive = "harness: link went away"
		return nil
	}
	if w.net.AnyDeadlineHit() {
		// the driver stalled a stream header (control or solicited stream) beyond the 5 s
		// establish deadline: that stream is legitimately dead, completeness is not demanded
		s.Count("probe:header-stalled-past-deadline")
		return nil
	}
	// completeness: every class solicited admissibly on both sides produced a stream that
	// was handed out on both sides
	classes := map[string][2]bool{}
	for _, d := range w.dirs {
		if !d.admits() || d.withdrawn {
			continue
		}
		k := d.proto + "\x00" + d.ctx
		c := classes[k]
		c[d.side] = true
		classes[k] = c
	}
	var ks []string
	for k := range classes {
		ks = append(ks, k)
	}
	sort.Strings(ks)
	for _, k := range ks {
		if c := classes[k]; !c[0] || !c[1] {
			continue
		}
		// The property quantifies over solicitation values, not over histories of withdrawing
		// and re-making them: a class (or a colliding one) that was withdrawn at some point
		// is left out of the completeness demand (a stream matched for the withdrawn
		// solicitation may have been consumed on one side only).
		hist := false
		for _, d := range w.dirs {
			if d.withdrawn && d.proto+d.ctx == strings.ReplaceAll(k, "\x00", "") {
				hist = true
			}
		}
		if hist {
			s.Count("probe:class-with-withdrawal-history")
			continue
		}
		served := [2]bool{}
		for _, d := range w.dirs {
			if d.admits() && d.proto+"\x00"+d.ctx == k && len(d.got) > 0 {
				served[d.side] = true
			}
		}
		if !served[0] || !served[1] {
			pc := strings.SplitN(k, "\x00", 2)
			kind := "no-stream"
			for _, o := range w.dirs {
				if o.admits() && (o.proto != pc[0] || o.ctx != pc[1]) && o.proto+o.ctx == pc[0]+pc[1] {
					// another solicited class has the same concatenation protocol||context: its
					// hash is the same, the link already counts this hash as matched
					kind = "no-stream,shadowed-by-colliding-concatenation"
				}
			}
			return &dsim.Violation{Property: "C30", Rule: "identical-solicitations-not-matched", Witness: kind,
				Detail: fmt.Sprintf("both nodes solicit (%q,%q) with constraints that admit the link, but at quiescence a stream was handed out on node1=%v node2=%v", pc[0], pc[1], served[0], served[1])}
		}
		s.Count("done:class-matched")
	}
	s.Count("done:final")
	return nil
}

func (w *solicitWorld) Teardown(s *dsim.Sim) {
	w.net.Close()
	for _, nd := range w.net.Nodes {
		nd.Shutdown()
	}
}

// clipTail shortens long strings keeping the tail (where the long inputs differ).
func clipTail(x string) string {
	if len(x) > 24 {
		return fmt.Sprintf("…(%d bytes)…%s", len(x), x[len(x)-6:])
	}
	return x
}
