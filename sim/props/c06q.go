package props

import (
	"context"
	"fmt"
	"net"
	"os"
	"sort"
	"time"

	"github.com/aperturerobotics/bifrost/link"
	"github.com/aperturerobotics/bifrost/transport/common/dialer"

	"verif/sim/dsim"
	"verif/sim/worlds/node"
	"verif/sim/worlds/pnet"
)

// c06Quic is the scenario for the two quic.Transport clauses of C06 ("HandleSession usurps
// an existing link on the same address", "handleLinkLost only removes the link if it is
// still current for its address") together with the controller on top of it.
//
// World QUIC: a listener X at address "ax" and three dialers that contend for ONE source
// address "an": N, M (another identity) and N2 (the identity of N: N restarted). Exactly
// one of them is reachable at "an" at any time (address takeover fault: NAT rebinding, a
// lease handed to another host, a restart); the others keep sending from it. Every party
// is a full node: real bus, peer controller, transport controller, pconn/QUIC transport
// with real TLS over the simulated datagram network. Operations: dials through the
// controller in both directions, application-level Close of a link, clock jumps up to
// beyond the idle timeout; faults: address takeover, packet loss / duplication /
// reordering / corruption.
//
// Ground truth is physical: a link object counts as lost once it is closed (its context
// is done). Oracle, at every driver step at which nothing is parked (all goroutines have
// run to a blocking point): (1) every link in the controller's tables was reported
// established by the transport, and is not closed; (2) every link the transport reported
// and that is not closed is in the tables (losing or usurping an old link never removes a
// newer one); (3) both tables hold the same objects; (4) the transport's address table
// points at no closed link, and every reported link that is not closed is the current
// one for its remote address.
type c06Quic struct {
	s     *dsim.Sim
	net   *node.Net
	pn    *pnet.Net
	nodes []*c06qNode
	ops   int
	max   int
	loss  int
	viol  *dsim.Violation
	tasks int
	dials int
}

type c06qNode struct {
	name string
	nd   *node.Node
	tc   *node.TC
	conn *pnet.Conn
	addr pnet.Addr
	est  []link.Link // reported established, in order
	lost map[link.Link]bool
}

func (w *c06Quic) fail(v *dsim.Violation) {
	if w.viol == nil {
		w.viol = v
	}
}

func (w *c06Quic) Setup(s *dsim.Sim) {
	w.s = s
	t := s.Tape
	s.Cfg.MaxChaosSteps, s.Cfg.MaxStableSteps, s.Cfg.Horizon = 400, 60000, 3*time.Minute
	w.net = node.NewNet(s)
	w.pn = pnet.New(s)
	add := func(name, idn string, addr pnet.Addr) *c06qNode {
		q := &c06qNode{name: name, addr: addr, lost: map[link.Link]bool{}}
		q.nd = w.net.AddNode(name, idn)
		q.conn = w.pn.Listen(name, addr)
		q.tc = q.nd.AddQuicTransport("t"+name, idn, q.conn, nil, func(l link.Link) {
			q.est = append(q.est, l)
			s.Logf("%s: transport reports link established #%d remote=%s@%s", name, len(q.est)-1, w.net.Names[l.GetRemotePeer().String()], remoteAddr(l))
		})
		q.tc.Rec.OnLost = func(l link.Link) {
			q.lost[l] = true
			s.Logf("%s: transport reports link lost #%d", name, q.idx(l))
		}
		w.nodes = append(w.nodes, q)
		return q
	}
	add("X", "X", "ax")
	n := add("N", "N", "an")
	add("M", "M", "an")
	add("N2", "N", "an")
	w.pn.Rebind("an", n.conn)
	// Without a reference the controller lets a link go 10 s after it was established
	// (hold-open of the link directive), and the end of an old link ends the directive it
	// shares with its same-peer replacement. In half of the runs the listener (and the
	// dialers) hold references for their peers, as the hold-open controller or an
	// application would, so that replacements stay up.
	if t.Bool(1, 2, "hold-references") {
		x := w.nodes[0]
		for _, q := range w.nodes[1:3] {
			_, _, _ = x.nd.Bus.AddDirective(link.NewEstablishLinkWithPeer("", q.tc.P.ID), nil)
		}
		for _, q := range w.nodes[1:] {
			_, _, _ = q.nd.Bus.AddDirective(link.NewEstablishLinkWithPeer("", x.tc.P.ID), nil)
		}
	}
	w.max = 3 + t.Draw(10, "max-ops")
	w.loss = t.Draw(5, "loss-budget")
}

func remoteAddr(l link.Link) string {
	if a, ok := l.(interface{ RemoteAddr() net.Addr }); ok && a.RemoteAddr() != nil {
		return a.RemoteAddr().String()
	}
	return "?"
}

func (q *c06qNode) idx(l link.Link) int {
	if l == nil {
		return -1
	}
	for i, e := range q.est {
		if e == l {
			return i
		}
	}
	return -1
}

func closed(l link.Link) bool {
	c, ok := l.(interface{ GetContext() context.Context })
	return ok && c.GetContext().Err() != nil
}

func (w *c06Quic) dial(from *c06qNode, to *c06qNode) {
	s := w.s
	w.tasks++
	w.dials++
	id := w.dials
	s.Logf("dial #%d %s -> %s@%s (an is served by %s)", id, from.name, to.name, to.addr, w.pn.BoundName("an"))
	ctx, cancel := context.WithTimeout(from.nd.Ctx(), 90*time.Second)
	go func() {
		defer cancel()
		lnk, err := from.tc.Ctrl.DialPeerAddr(ctx, to.tc.P.ID, &dialer.DialerOpts{Address: string(to.addr)})
		w.tasks--
		s.Logf("dial #%d returned link=%v err=%v", id, lnk != nil, err)
		if err == nil && lnk != nil {
			s.Count("done:dial")
		}
	}()
}

func (w *c06Quic) Actions(s *dsim.Sim, add func(dsim.Action)) {
	faults := s.Phase == dsim.PhaseChaos
	w.pn.Actions(add, faults, &w.loss)
	if s.Phase == dsim.PhaseStable || w.ops >= w.max {
		return
	}
	t := s.Tape
	x := w.nodes[0]
	if w.tasks < 3 {
		for _, q := range w.nodes[1:] {
			q := q
			add(dsim.Action{Name: "3op:dial:" + q.name + ">X", Weight: 4, Fire: func() { w.ops++; w.dial(q, x) }})
		}
		add(dsim.Action{Name: "3op:dial:X>an", Weight: 2, Fire: func() {
			w.ops++
			// X dials whoever it believes lives at "an"
			tgt := w.nodes[1+t.Draw(2, "x-dials")] // N or M (N2 has N's identity)
			w.dial(x, tgt)
		}})
	}
	cur := w.pn.BoundName("an")
	for _, q := range w.nodes[1:] {
		q := q
		if q.name != cur {
			add(dsim.Action{Name: "5flt:takeover:" + q.name, Weight: 2, Fault: true, Fire: func() {
				w.ops++
				s.Count("fault:address-takeover")
				w.pn.Rebind("an", q.conn)
				s.Logf("address an now reaches %s", q.name)
			}})
		}
	}
	for _, q := range w.nodes {
		q := q
		for i, l := range q.est {
			if closed(l) {
				continue
			}
			i, l := i, l
			add(dsim.Action{Name: fmt.Sprintf("3op:close:%s#%d", q.name, i), Weight: 1, Fire: func() {
				w.ops++
				s.Count("fault:application-close")
				s.Logf("%s closes its link #%d", q.name, i)
				go l.Close()
			}})
		}
	}
	add(dsim.Action{Name: "5flt:clock-jump", Weight: 1, Fault: true, Fire: func() {
		w.ops++
		s.Count("fault:clock-jump")
		d := []time.Duration{5 * time.Second, 20 * time.Second, 61 * time.Second}[t.Draw(3, "jump")]
		s.Logf("clock jumps by %v", d)
		time.Sleep(d)
	}})
}

func (w *c06Quic) check(s *dsim.Sim) *dsim.Violation {
	if s.ParkedCount() > 0 {
		return nil
	}
	for _, q := range w.nodes {
		byUUID, byPeer := q.tc.Ctrl.VerifLinks()
		reported := map[link.Link]bool{}
		for _, l := range byUUID {
			reported[l] = true
		}
		inPeer := map[link.Link]bool{}
		for _, ls := range byPeer {
			for _, l := range ls {
				inPeer[l] = true
			}
		}
		desc := func(l link.Link) string {
			return fmt.Sprintf("%s link #%d to %s", q.name, q.idx(l), w.net.Names[l.GetRemotePeer().String()])
		}
		var ls []link.Link
		for l := range reported {
			ls = append(ls, l)
		}
		for l := range inPeer {
			if !reported[l] {
				ls = append(ls, l)
			}
		}
		sort.Slice(ls, func(i, j int) bool { return q.idx(ls[i]) < q.idx(ls[j]) })
		for _, l := range ls {
			if reported[l] != inPeer[l] {
				return &dsim.Violation{Property: "C06", Rule: "tables-disagree", Witness: "quic/by-uuid!=by-peer",
					Detail: fmt.Sprintf("%s: in the by-uuid table: %v, in the by-peer table: %v", desc(l), reported[l], inPeer[l])}
			}
			if q.idx(l) < 0 {
				return &dsim.Violation{Property: "C06", Rule: "reported-links!=established-and-not-lost", Witness: "quic/never-established",
					Detail: fmt.Sprintf("%s holds a link to %s that its transport never reported", q.name, w.net.Names[l.GetRemotePeer().String()])}
			}
			if closed(l) {
				how := "closed"
				if q.lost[l] {
					how = "closed and reported lost"
				}
				return &dsim.Violation{Property: "C06", Rule: "reported-links!=established-and-not-lost", Witness: "quic/closed-link-still-reported",
					Detail: fmt.Sprintf("%s is %s but still in the controller's link tables with nothing left to run", desc(l), how)}
			}
		}
		cur := map[string]link.Link{}
		for _, a := range []string{"ax", "an"} {
			if l, ok := q.tc.Quic.LookupLinkWithAddr(a); ok {
				cur[a] = l
				if closed(l) {
					return &dsim.Violation{Property: "C06", Rule: "transport-address-table-stale", Witness: "quic/closed-link-current",
						Detail: fmt.Sprintf("%s: the transport's current link for address %s (#%d) is closed", q.name, a, q.idx(l))}
				}
			}
		}
		for i, l := range q.est {
			if closed(l) {
				continue
			}
			if !reported[l] {
				return &dsim.Violation{Property: "C06", Rule: "reported-links!=established-and-not-lost", Witness: "quic/live-link-missing",
					Detail: fmt.Sprintf("%s: link #%d to %s was reported established, is not closed, and is not in the controller's tables", q.name, i, w.net.Names[l.GetRemotePeer().String()])}
			}
			if a := remoteAddr(l); cur[a] != l {
				return &dsim.Violation{Property: "C06", Rule: "transport-address-table-stale", Witness: "quic/live-link-not-current",
					Detail: fmt.Sprintf("%s: link #%d (remote address %s) is not closed but the transport's current link for that address is #%d", q.name, i, a, q.idx(cur[a]))}
			}
		}
		s.NoteState(dsim.HashStr(fmt.Sprintf("%s|%d|%d|%d", q.name, len(q.est), len(reported), len(cur))))
	}
	s.Count("probe:tables-checked")
	return nil
}

func (w *c06Quic) Invariant(s *dsim.Sim) *dsim.Violation {
	if w.viol != nil {
		return w.viol
	}
	return w.check(s)
}

func (w *c06Quic) Done(s *dsim.Sim) bool { return w.tasks == 0 && w.pn.InTransit() == 0 }

func (w *c06Quic) Final(s *dsim.Sim, stuck bool) *dsim.Violation {
	if w.viol != nil {
		return w.viol
	}
	return w.check(s)
}

func (w *c06Quic) Teardown(s *dsim.Sim) {
	w.net.Close()
	for _, nd := range w.net.Nodes {
		nd.Shutdown()
	}
	w.pn.CloseAll()
}

// c06Switch picks the scenario per run: mostly the NODE world (harness-made links,
// lock contention), sometimes the QUIC world (real transport underneath).
type c06Switch struct{ inner dsim.World }

func (w *c06Switch) Setup(s *dsim.Sim) {
	// (DSIM_SCENARIO is a development aid: it forces the scenario, the tape draw stays)
	if q := s.Tape.Bool(1, 12, "quic-scenario"); (q || os.Getenv("DSIM_SCENARIO") == "quic") && os.Getenv("DSIM_SCENARIO") != "node" {
		w.inner = &c06Quic{}
	} else {
		w.inner = &c06World{prop: "C06"}
	}
	w.inner.Setup(s)
}
func (w *c06Switch) Actions(s *dsim.Sim, add func(dsim.Action)) { w.inner.Actions(s, add) }
func (w *c06Switch) Invariant(s *dsim.Sim) *dsim.Violation      { return w.inner.Invariant(s) }
func (w *c06Switch) Done(s *dsim.Sim) bool                      { return w.inner.Done(s) }
func (w *c06Switch) Final(s *dsim.Sim, stuck bool) *dsim.Violation {
	return w.inner.Final(s, stuck)
}
func (w *c06Switch) Teardown(s *dsim.Sim) { w.inner.Teardown(s) }
