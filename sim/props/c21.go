package props

import (
	"bytes"
	"fmt"

	signaling "github.com/aperturerobotics/bifrost/signaling/rpc"
	"github.com/aperturerobotics/util/backoff"

	"verif/sim/dsim"
	"verif/sim/worlds/sig"
)

// C21: a signaling send is acknowledged only after the partner received it.
//
// World SIG: real relay Server, 2-3 real Clients. Workload: peer refs added in tape
// order, up to 4 sends per ordered pair with unique payloads, sends cancelled at
// arbitrary points, application receive loops. Faults: stream resets (client retry with
// backoff), session replacement through a duplicate client instance is not modelled;
// in the "lossy" configuration (1 run in 4) the relay additionally drops or duplicates
// individual wire messages in either direction (then only safety is demanded).
//
// Oracle (trace validation at the instant Send returns): Send(m) == nil implies that an
// earlier application Recv at the destination returned exactly m (byte-equal signed
// message, so an ack or clear naming a different message can never stand in for it).
type c21World struct {
	cw                   *sig.ClientWorld
	names                []string
	toIssue              []pendingOp
	issued               int
	maxReset             int
	resets               int
	lossy                bool
	drops                int
	viol                 *dsim.Violation
	sends                []*sig.SendOp
	rerefs               int
	expired              int
	relSeq               int
	restarts, maxRestart int
}

func init() {
	register(&Spec{
		ID: "C21", World: "SIG",
		New:        func() dsim.World { return &c21World{} },
		Cfg:        defaultCfg,
		Real:       []string{"signaling/rpc/server.Server", "signaling/rpc/client.Client (Send incl. cancellation/clear path, Recv, session routine)", "util keyed/routine/backoff", "peer.SignedMsg"},
		Stub:       []string{"srpc transport replaced by simulator-owned message streams", "stream identity callback", "util/broadcast lock instrumented"},
		FaultKinds: []string{"fault:stream-reset", "fault:clock-jump", "fault:send-cancel", "fault:wire-drop", "fault:wire-dup", "fault:peer-ref-released", "fault:relay-restart", "fault:recv-with-expired-context"},
	})
}

func (w *c21World) Setup(s *dsim.Sim) {
	t := s.Tape
	w.names = []string{"A", "B"}
	if t.Bool(1, 3, "three-parties") {
		w.names = []string{"A", "B", "C"}
	}
	w.cw = sig.NewClientWorld(s, w.names)
	arm := []int{0, 30, 60, 100}[t.Draw(4, "arm-pct")]
	s.ArmFraction(arm, sigArmAllow())
	var bo *backoff.Backoff
	if t.Bool(1, 2, "backoff-const") {
		bo = &backoff.Backoff{BackoffKind: backoff.BackoffKind_BackoffKind_CONSTANT}
	}
	for _, n := range w.names {
		w.cw.AddClient(n, bo)
	}
	w.maxReset = t.Draw(4, "max-resets")
	// in some runs the applications receive only when they get round to it (no receive
	// loop), so that messages wait in the client
	if t.Bool(1, 3, "manual-recv") {
		for _, n := range w.names {
			w.cw.Nodes[n].ManualRecv = true
		}
	}
	if t.Bool(1, 3, "relay-restarts") {
		w.maxRestart = 1 + t.Draw(2, "max-restarts")
	}
	w.lossy = t.Bool(1, 4, "lossy-relay")
	w.cw.OnSendDone = func(op *sig.SendOp) {
		if op.Err != nil {
			return
		}
		want, _ := op.Msg.MarshalVT()
		_, recvs := w.cw.Snapshot()
		for _, r := range recvs {
			if r.At == op.To && r.From == op.From && bytes.Equal(r.Raw, want) {
				return
			}
		}
		got := ""
		for _, r := range recvs {
			if r.At == op.To && r.From == op.From {
				got += fmt.Sprintf("%q ", r.Payload)
			}
		}
		if w.viol == nil {
			w.viol = &dsim.Violation{Property: "C21", Rule: "send-succeeded-without-delivery", Witness: "no-earlier-recv-of-this-message",
				Detail: fmt.Sprintf("Send %s->%s %q returned nil but %s's application had not received that message (received so far from %s: [%s]; lossy=%v)", op.From, op.To, op.Payload, op.To, op.From, got, w.lossy)}
		}
	}
	for _, p := range w.names {
		for _, q := range w.names {
			if p == q {
				continue
			}
			p, q := p, q
			if w.names[len(w.names)-1] == "C" && !t.Bool(2, 3, "pair-"+p+q) {
				continue
			}
			P := w.cw.Nodes[p]
			w.toIssue = append(w.toIssue, pendingOp{name: "3op:" + p + ".addref." + q, fire: func() { P.AddRef(q) }})
			n := t.Draw(4, "sends-"+p+q)
			for i := 0; i < n; i++ {
				payload := fmt.Sprintf("%s%s%d", p, q, i)
				w.toIssue = append(w.toIssue, pendingOp{name: "3op:" + p + ".send." + payload, ready: func() bool { return P.Refs[q] != nil },
					fire: func() { w.sends = append(w.sends, P.StartSend(q, payload)) }})
			}
		}
	}
}

func (w *c21World) Actions(s *dsim.Sim, add func(dsim.Action)) {
	w.cw.Net.GC()
	w.cw.Net.DeliveryActions(add)
	for i := range w.toIssue {
		op := &w.toIssue[i]
		if op.fire == nil || (op.ready != nil && !op.ready()) {
			continue
		}
		add(dsim.Action{Name: op.name, Weight: 6, Fire: func() {
			f := op.fire
			op.fire = nil
			w.issued++
			f()
		}})
	}
	// the application drops a peer (cancelling its sends on it) and may add it again later:
	// a fresh peer tracker numbers its messages from 1 again
	if s.Phase == dsim.PhaseChaos && w.rerefs < 3 {
		for _, p := range w.names {
			P := w.cw.Nodes[p]
			for _, q := range w.names {
				p, q := p, q
				if P.Refs[q] == nil {
					continue
				}
				add(dsim.Action{Name: "5flt:release-ref:" + p + q, Weight: 1, Fault: true, Fire: func() {
					w.rerefs++
					s.Count("fault:peer-ref-released")
					for _, so := range w.sends {
						if so.From == p && so.To == q && !so.Done && !so.Cancelled {
							so.Cancel()
						}
					}
					P.ReleaseRef(q)
					w.relSeq++
					n := w.relSeq
					w.toIssue = append(w.toIssue, pendingOp{name: fmt.Sprintf("3op:%s.re-addref.%s.%d", p, q, n), fire: func() { P.AddRef(q) }})
					payload := fmt.Sprintf("%s%sr%d", p, q, n)
					w.toIssue = append(w.toIssue, pendingOp{name: "3op:" + p + ".send." + payload, ready: func() bool { return P.Refs[q] != nil },
						fire: func() { w.sends = append(w.sends, P.StartSend(q, payload)) }})
				}})
			}
		}
	}
	for _, p := range w.names {
		P := w.cw.Nodes[p]
		if !P.ManualRecv {
			continue
		}
		for _, q := range w.names {
			p, q := p, q
			if P.Refs[q] != nil && !P.RecvBusy[q] {
				add(dsim.Action{Name: "3op:app-recv:" + p + q, Weight: 3, Fire: func() { P.StartRecv(q) }})
			}
		}
	}
	if s.Phase == dsim.PhaseChaos && w.expired < 3 && s.ParkedCount() == 0 {
		for _, p := range w.names {
			P := w.cw.Nodes[p]
			for _, q := range w.names {
				p, q := p, q
				if P.Refs[q] == nil {
					continue
				}
				add(dsim.Action{Name: "5flt:recv-expired-ctx:" + p + q, Weight: 1, Fault: true, Fire: func() {
					w.expired++
					s.Count("fault:recv-with-expired-context")
					P.RecvExpired(q)
				}})
			}
		}
	}
	for _, so := range w.sends {
		if !so.Done && !so.Cancelled {
			so := so
			add(dsim.Action{Name: "5flt:cancel:" + so.From + so.To + so.Payload, Weight: 1, Fault: true, Fire: func() {
				s.Count("fault:send-cancel")
				so.Cancel()
			}})
		}
	}
	if s.Phase == dsim.PhaseChaos && w.restarts < w.maxRestart {
		add(dsim.Action{Name: "5flt:relay-restart", Weight: 1, Fault: true, Fire: func() {
			w.restarts++
			s.Count("fault:relay-restart")
			w.cw.Net.RestartRelay()
		}})
	}
	if w.resets < w.maxReset {
		w.cw.Net.ResetActions(func(a dsim.Action) {
			f := a.Fire
			a.Fire = func() { w.resets++; f() }
			add(a)
		}, 1, nil)
	}
	if w.lossy && w.drops < 6 {
		for _, st := range w.cw.Net.Streams() {
			for _, p := range []*dsim.Pipe{st.C2S, st.S2C} {
				it, ok := p.Peek()
				if !ok || it.Ctl != "" {
					continue
				}
				p := p
				add(dsim.Action{Name: "5flt:drop:" + p.Name, Weight: 1, Fault: true, Fire: func() {
					w.drops++
					s.Count("fault:wire-drop")
					it, _ := p.DropHead()
					s.Logf("  dropped %s %d bytes", p.Name, len(it.Data))
				}})
				add(dsim.Action{Name: "5flt:dup:" + p.Name, Weight: 1, Fault: true, Fire: func() {
					w.drops++
					s.Count("fault:wire-dup")
					p.DupHead()
				}})
			}
		}
	}
}

func (w *c21World) Invariant(s *dsim.Sim) *dsim.Violation { return w.viol }

func (w *c21World) Done(s *dsim.Sim) bool {
	return w.issued == len(w.toIssue) && len(w.cw.PendingSends()) == 0
}

func (w *c21World) Final(s *dsim.Sim, stuck bool) *dsim.Violation {
	// safety only: pending sends under a lossy relay or after cancellation are legitimate
	return w.viol
}

func (w *c21World) Teardown(s *dsim.Sim) { w.cw.Teardown() }

var _ = signaling.ErrUserpedSession
