package props

import (
	"crypto/ed25519"
	"encoding/pem"
	"fmt"
	bifrost_cli "github.com/aperturerobotics/bifrost/cli"
	"github.com/aperturerobotics/cli"
	"os"
	"path/filepath"
	"strings"
	"time"

	"github.com/aperturerobotics/bifrost/crypto"
	"github.com/aperturerobotics/bifrost/keypem"
	"github.com/aperturerobotics/bifrost/keypem/keyfile"
	"github.com/aperturerobotics/bifrost/peer"

	"verif/sim/dsim"
)

// C39: key files yield a usable key or an error.
//
// World DISK: the real keyfile.OpenOrWritePrivKey against a per-run scratch directory on
// the real file system. The simulator keeps a model of what the path holds and puts the
// directory into the states a crash or an operator can leave it in. Operations: load
// (the real loader); crash-after-write (os.WriteFile is open-truncate-write without
// fsync or rename, so after a crash the file holds ANY prefix of the written bytes, is
// empty, or is missing); corrupt a byte; replace the content by garbage, by nothing, by a
// PEM block of another type, by a public-key PEM; make the path a directory; put the
// path below a regular file; make it a symlink loop; a dangling symlink; an over-long
// name; delete.
//
// Oracle for every load: it returns (key != nil, err == nil) with a key that yields a
// peer ID and signs, or err != nil. Never (nil, nil). After a load that created the file,
// the file exists and a clean reload returns the same peer ID; a load of an intact key
// file returns the identity that was stored.
type c39World struct {
	s       *dsim.Sim
	dir     string
	root    string
	path    string
	state   string // model of the path
	content []byte // last full content written by the loader (valid key file)
	ident   string // peer id stored in the intact file ("" if none)
	ops     int
	maxOps  int
	viol    *dsim.Violation
}

func init() {
	register(&Spec{
		ID: "C39", World: "DISK",
		New:        func() dsim.World { return &c39World{} },
		Cfg:        dsim.Config{MaxChaosSteps: 40, MaxStableSteps: 50, Horizon: time.Second},
		Real:       []string{"cli.EnvelopeArgs.RunUnseal / loadPrivKeys (the CLI path that relies on the key file)", "keypem/keyfile.OpenOrWritePrivKey", "keypem.ParsePrivKeyPem / MarshalPrivKeyPem", "crypto key generation and (un)marshalling", "the real file system (scratch directory)"},
		Stub:       []string{"crash points are modelled on the file content (any prefix of the last write / empty / missing), not injected inside os.WriteFile: there is no file-system seam in the code"},
		FaultKinds: []string{"fault:torn-write", "fault:lost-write", "fault:empty-file", "fault:bit-corruption", "fault:garbage", "fault:wrong-pem-type", "fault:pubkey-pem", "fault:path-is-directory", "fault:path-below-file", "fault:symlink-loop", "fault:dangling-symlink", "fault:name-too-long", "fault:write-fails", "fault:permission-denied", "fault:malformed-key-body"},
		Notes:      []string{"no concurrency in this property: the schedule dimension is the order of loads, crashes and file-state faults"},
	})
}

func (w *c39World) Setup(s *dsim.Sim) {
	w.s = s
	// (the name carries the pid: processes that run the same seed at the same time draw the
	// same "random" names; the scratch directory proper is a fixed child that reset()
	// removes and recreates, the parent stays)
	root, err := os.MkdirTemp("", fmt.Sprintf("dsim-c39-%d-", os.Getpid()))
	if err != nil {
		panic(err)
	}
	w.root = root
	w.dir = filepath.Join(root, "d")
	if err := os.Mkdir(w.dir, 0o755); err != nil {
		panic(err)
	}
	w.path = filepath.Join(w.dir, "node.pem")
	w.state = "missing"
	w.maxOps = 2 + s.Tape.Draw(10, "max-ops")
}

func (w *c39World) fail(v *dsim.Violation) {
	if w.viol == nil {
		w.viol = v
	}
}

func (w *c39World) reset() {
	_ = os.Chmod(filepath.Join(w.dir, "ro"), 0o755)
	_ = os.RemoveAll(w.dir)
	_ = os.MkdirAll(w.dir, 0o755)
	w.path = filepath.Join(w.dir, "node.pem")
}

func (w *c39World) load() {
	s := w.s
	before := w.state
	key, err := keyfile.OpenOrWritePrivKey(nil, w.path)
	outcome := "key"
	switch {
	case key == nil && err == nil:
		outcome = "nil,nil"
	case err != nil:
		outcome = "error"
	}
	s.Logf("load on %s -> %s", before, outcome)
	s.Count("done:load")
	if key == nil && err == nil {
		w.fail(&dsim.Violation{Property: "C39", Rule: "absent-key-without-error", Witness: "file_state=" + before,
			Detail: fmt.Sprintf("OpenOrWritePrivKey returned (nil, nil) for a path in state %q: the caller sees neither a key nor an error", before)})
		return
	}
	if err != nil {
		if before == "missing" || before == "intact" || before == "dangling-symlink" {
			w.fail(&dsim.Violation{Property: "C39", Rule: "spurious-error", Witness: "file_state=" + before,
				Detail: fmt.Sprintf("OpenOrWritePrivKey failed on a %s path: %v", before, err)})
		}
		return
	}
	// usable?
	id, perr := peer.IDFromPrivateKey(key)
	if perr != nil {
		w.fail(&dsim.Violation{Property: "C39", Rule: "unusable-key", Witness: "no-peer-id", Detail: perr.Error()})
		return
	}
	serr := func() (err error) {
		defer func() {
			if r := recover(); r != nil {
				err = fmt.Errorf("panic: %v", r)
			}
		}()
		_, err = key.Sign([]byte("probe"))
		return err
	}()
	if serr != nil {
		w.fail(&dsim.Violation{Property: "C39", Rule: "unusable-key", Witness: "cannot-sign", Detail: serr.Error()})
		return
	}
	switch before {
	case "missing", "dangling-symlink", "missing-parent-dir", "dangling-into-missing-dir", "readonly-dir":
		// (for the last three the write cannot succeed: an error is the expected outcome; a
		// key with a nil error must still have been written)
		dat, rerr := os.ReadFile(w.path)
		if rerr != nil {
			w.fail(&dsim.Violation{Property: "C39", Rule: "generated-key-not-written", Witness: "file_state=" + before,
				Detail: fmt.Sprintf("a new key was returned for a missing file but the file cannot be read afterwards: %v", rerr)})
			return
		}
		w.content, w.ident, w.state = dat, id.String(), "intact"
		key2, err2 := keyfile.OpenOrWritePrivKey(nil, w.path)
		if err2 != nil || key2 == nil {
			w.fail(&dsim.Violation{Property: "C39", Rule: "reload-fails", Witness: "after-generate", Detail: fmt.Sprintf("reload of the file just written: key=%v err=%v", key2 != nil, err2)})
			return
		}
		id2, _ := peer.IDFromPrivateKey(key2)
		if id2.String() != w.ident {
			w.fail(&dsim.Violation{Property: "C39", Rule: "identity-changes-on-reload", Witness: "after-generate", Detail: "the reloaded key has a different peer ID"})
		}
		s.Count("done:generate+reload")
	case "intact":
		if id.String() != w.ident {
			w.fail(&dsim.Violation{Property: "C39", Rule: "identity-changes-on-reload", Witness: "intact-file", Detail: "an intact key file loaded to a different peer ID"})
		}
	case "overlong-key-body":
		// the loader may reject it or accept it; an accepted key passed the usability checks above
	case "other-valid-key":
		// an operator replaced the file by another valid private key: fine
	default:
		if w.ident != "" && id.String() == w.ident && (before == "torn" || before == "corrupt") {
			// the damage left a complete key file (e.g. only the final newline was cut)
			return
		}
		w.fail(&dsim.Violation{Property: "C39", Rule: "key-from-non-key-file", Witness: "file_state=" + before,
			Detail: fmt.Sprintf("a key was returned although the path is in state %q", before)})
	}
}

// c39NonKey: file states in which the path holds no usable private key (and is not missing).
var c39NonKey = map[string]bool{"torn": true, "empty": true, "corrupt": true, "garbage": true, "wrong-pem-type": true, "pubkey-pem": true,
	"directory": true, "below-regular-file": true, "symlink-loop": true, "name-too-long": true, "unreadable": true}

// unseal runs the CLI path that relies on the key file (`envelope unseal --key <path>`,
// anchored in cli/envelope.go) with the file in a non-key state. The input file does not
// exist: a correct loader fails on the key (and names it) before the input is ever read.
func (w *c39World) unseal() {
	s := w.s
	before := w.state
	a := &bifrost_cli.EnvelopeArgs{InputPath: filepath.Join(w.root, "no-such-input"), OutputPath: filepath.Join(w.root, "out")}
	a.KeyPaths = *cli.NewStringSlice(w.path)
	err := a.RunUnseal(nil)
	// (the error text carries the scratch path, which differs per process: not logged)
	s.Logf("cli unseal with key file in state %s -> error=%v", before, err != nil)
	s.Count("done:cli-unseal")
	if before == "torn" || before == "corrupt" {
		// the damage may have left a complete key (e.g. only the final newline cut)
		if k, kerr := keyfile.OpenOrWritePrivKey(nil, w.path); kerr == nil && k != nil {
			return
		}
	}
	if err == nil || !strings.Contains(err.Error(), "key") || !strings.Contains(err.Error(), filepath.Base(w.path)) {
		w.fail(&dsim.Violation{Property: "C39", Rule: "non-key-file-treated-as-absent-key", Witness: "cli-unseal,file_state=" + before,
			Detail: fmt.Sprintf("envelope unseal with --key pointing at a path in state %q went on without reporting the key file: %v", before, err)})
	}
}

func (w *c39World) Actions(s *dsim.Sim, add func(dsim.Action)) {
	if s.Phase == dsim.PhaseStable {
		if w.ops < w.maxOps+1 {
			add(dsim.Action{Name: "3op:load", Fire: func() { w.ops = w.maxOps + 1; w.load() }})
		}
		return
	}
	if w.ops >= w.maxOps {
		return
	}
	t := s.Tape
	add(dsim.Action{Name: "3op:load", Weight: 10, Fire: func() { w.ops++; w.load() }})
	if c39NonKey[w.state] {
		add(dsim.Action{Name: "3op:cli-unseal", Weight: 4, Fire: func() { w.ops++; w.unseal() }})
	}
	set := func(name, fault string, wt int, f func()) {
		add(dsim.Action{Name: "5flt:" + name, Weight: wt, Fault: true, Fire: func() {
			w.ops++
			s.Count("fault:" + fault)
			f()
			s.Logf("file state -> %s", w.state)
		}})
	}
	if w.state == "intact" {
		set("crash-torn", "torn-write", 6, func() {
			k := 1 + t.Draw(len(w.content)-1, "torn-len")
			_ = os.WriteFile(w.path, w.content[:k], 0o600)
			w.state = "torn"
		})
		set("crash-lost", "lost-write", 2, func() { _ = os.Remove(w.path); w.state = "missing"; w.ident = "" })
		set("crash-empty", "empty-file", 3, func() { _ = os.WriteFile(w.path, nil, 0o600); w.state = "empty" })
		set("corrupt", "bit-corruption", 3, func() {
			b := append([]byte(nil), w.content...)
			// damage the base64 body (never only whitespace): overwrite 4 bytes in the middle
			i := len(b)/2 - 2
			copy(b[i:], "!!!!")
			_ = os.WriteFile(w.path, b, 0o600)
			w.state = "corrupt"
		})
	}
	set("garbage", "garbage", 2, func() {
		w.reset()
		_ = os.WriteFile(w.path, []byte("this is not a key\n\x00\x01\x02"), 0o600)
		w.state = "garbage"
	})
	set("empty", "empty-file", 2, func() { w.reset(); _ = os.WriteFile(w.path, nil, 0o600); w.state = "empty" })
	set("wrong-pem", "wrong-pem-type", 2, func() {
		w.reset()
		_ = os.WriteFile(w.path, pem.EncodeToMemory(&pem.Block{Type: "CERTIFICATE", Bytes: []byte("abcdef")}), 0o600)
		w.state = "wrong-pem-type"
	})
	set("pubkey-pem", "pubkey-pem", 2, func() {
		w.reset()
		std := ed25519.NewKeyFromSeed(make([]byte, 32))
		priv, pub, _ := crypto.KeyPairFromStdKey(&std)
		_ = priv
		dat, _ := keypem.MarshalPubKeyPem(pub)
		_ = os.WriteFile(w.path, dat, 0o600)
		w.state = "pubkey-pem"
	})
	set("overlong-key", "malformed-key-body", 2, func() {
		// the right PEM header around a well-formed key message whose key material carries
		// stray trailing bytes (65 or 80 instead of 64): either an error, or a key that works
		w.reset()
		std := ed25519.NewKeyFromSeed(make([]byte, 32))
		extra := []int{1, 16}[t.Draw(2, "extra")]
		body, _ := (&crypto.PrivateKey{KeyType: crypto.KeyType_Ed25519, Data: append(append([]byte(nil), std...), make([]byte, extra)...)}).MarshalVT()
		_ = os.WriteFile(w.path, pem.EncodeToMemory(&pem.Block{Type: "LIBP2P PRIVATE KEY", Bytes: body}), 0o600)
		w.state = "overlong-key-body"
	})
	set("is-dir", "path-is-directory", 2, func() { w.reset(); _ = os.Mkdir(w.path, 0o755); w.state = "directory" })
	set("below-file", "path-below-file", 2, func() {
		w.reset()
		f := filepath.Join(w.dir, "plainfile")
		_ = os.WriteFile(f, []byte("x"), 0o600)
		w.path = filepath.Join(f, "node.pem")
		w.state = "below-regular-file"
	})
	set("symlink-loop", "symlink-loop", 2, func() {
		w.reset()
		a, b := filepath.Join(w.dir, "a"), filepath.Join(w.dir, "b")
		_ = os.Symlink(a, b)
		_ = os.Symlink(b, a)
		w.path = a
		w.state = "symlink-loop"
	})
	set("dangling", "dangling-symlink", 1, func() {
		w.reset()
		_ = os.Symlink(filepath.Join(w.dir, "target.pem"), w.path)
		w.state = "dangling-symlink"
		w.ident = ""
	})
	set("missing-parent", "write-fails", 2, func() {
		// the file is missing and so is its directory: stat says "does not exist", the write fails
		w.reset()
		w.path = filepath.Join(w.dir, "no-such-dir", "node.pem")
		w.state = "missing-parent-dir"
		w.ident = ""
	})
	set("dangling-far", "write-fails", 1, func() {
		w.reset()
		_ = os.Symlink(filepath.Join(w.dir, "no-such-dir", "target.pem"), w.path)
		w.state = "dangling-into-missing-dir"
		w.ident = ""
	})
	if os.Geteuid() != 0 {
		set("readonly-dir", "write-fails", 2, func() {
			w.reset()
			ro := filepath.Join(w.dir, "ro")
			_ = os.Mkdir(ro, 0o555)
			w.path = filepath.Join(ro, "node.pem")
			w.state = "readonly-dir"
			w.ident = ""
		})
		if w.state == "intact" {
			set("unreadable", "permission-denied", 2, func() { _ = os.Chmod(w.path, 0); w.state = "unreadable" })
		}
	}
	set("long-name", "name-too-long", 1, func() {
		w.reset()
		w.path = filepath.Join(w.dir, strings.Repeat("n", 300)+".pem")
		w.state = "name-too-long"
	})
	set("delete", "lost-write", 1, func() { w.reset(); w.state = "missing"; w.ident = "" })
}

func (w *c39World) Invariant(s *dsim.Sim) *dsim.Violation { return w.viol }
func (w *c39World) Done(s *dsim.Sim) bool                 { return w.ops > w.maxOps }
func (w *c39World) Final(s *dsim.Sim, stuck bool) *dsim.Violation {
	return w.viol
}
func (w *c39World) Teardown(s *dsim.Sim) {
	_ = os.Chmod(filepath.Join(w.dir, "ro"), 0o755)
	_ = os.RemoveAll(w.root)
}
