package props

import (
	"bytes"
	"context"
	"encoding/binary"
	"errors"
	"fmt"
	"io"
	"net"

	stream_packet "github.com/aperturerobotics/bifrost/stream/packet"
	"github.com/aperturerobotics/bifrost/util/rwc"
	"github.com/aperturerobotics/starpc/srpc"

	"verif/sim/dsim"
)

// C08: packet framing over byte streams preserves packets exactly.
//
// World BYTES: two real rwc.PacketConn ends (variant "pc") or two real
// stream_packet.Session ends (variant "sess") over a simulator-owned duplex byte stream
// that the driver delivers in chunks of its choosing (1 byte … everything, splitting
// inside the length prefix, coalescing several frames). Per run: max packet size from
// {8, 64, 1500, 4096}, reader channel depth 1-10, reader buffer sizes (sometimes smaller
// than the packet), packet sizes biased to 1, max-1, max, max+1. Faults: raw injected
// length prefixes (0, max+1, 0xFFFFFFFF) followed by further valid frames, EOF or reset
// in the middle of a frame, a reader slower than the writers (queue full).
//
// Oracle (reference = the exact sequence of packets written per direction, in driver
// order): the k-th successful read returns exactly the k-th written packet (or, with a
// too-small buffer, its prefix together with io.ErrShortBuffer); no packet is returned
// twice or skipped; after a zero (PacketConn) or over-limit prefix the reader reports an
// error and nothing framed from later bytes is ever returned. For Session a zero-length
// frame is the legitimate encoding of an empty message (it is what SendMsg emits) and
// must decode as one without disturbing later frames; reading stops at the first error
// (a caller that keeps reading a failed Session is outside the property).
type c08World struct {
	variant    string
	max        uint32
	dirs       [2]*c08Dir
	ends       [2]*dsim.ByteEnd
	pcs        [2]*rwc.PacketConn
	sess       [2]*stream_packet.Session
	ctx        context.Context
	cancel     context.CancelFunc
	viol       *dsim.Violation
	ops        int
	maxOps     int
	s          *dsim.Sim
	lateReader bool
}

type c08Dir struct {
	name       string
	pipe       *dsim.ByteDir
	expected   [][]byte // packets the reader must see, in order (until poison)
	poisonAt   int      // index in expected after which the reader must fail (-1 none)
	got        int      // packets read so far
	ended      bool     // reader saw a terminal error
	endErr     error
	writerDead bool
	lossy      bool
	bufSizes   []int
}

type c08Addr string

func (a c08Addr) Network() string { return "sim" }
func (a c08Addr) String() string  { return string(a) }

func init() {
	register(&Spec{
		ID: "C08", World: "BYTES",
		New:        func() dsim.World { return &c08Switch{} },
		Warm:       []func() dsim.World{func() dsim.World { return &c08Conc{} }, func() dsim.World { return &c08World{} }},
		Cfg:        dsim.Config{MaxChaosSteps: 150, MaxStableSteps: 6000, Horizon: defaultCfg.Horizon},
		Real:       []string{"util/rwc.PacketConn (WriteTo, rxPump, ReadFrom)", "stream/packet.Session (SendMsg, RecvMsg)"},
		Stub:       []string{"the underlying io.ReadWriteCloser is a simulator-owned byte stream (dsim.ByteDir) with driver-chosen chunking"},
		FaultKinds: []string{"fault:chunking", "fault:raw-zero-prefix", "fault:raw-overlimit-prefix", "fault:raw-huge-prefix", "fault:oversize-send", "fault:eof-mid-frame", "fault:reset", "fault:short-buffer", "fault:slow-reader", "fault:flow-controlled-write", "fault:concurrent-write-calls"},
	})
}

func (w *c08World) fail(v *dsim.Violation) {
	if w.viol == nil {
		w.viol = v
	}
}

func (w *c08World) Setup(s *dsim.Sim) {
	w.s = s
	t := s.Tape
	w.variant = []string{"pc", "sess"}[t.Draw(2, "variant")]
	w.max = []uint32{4096, 8, 64, 1500}[t.Draw(4, "max-size")]
	depth := 1 + t.Draw(10, "depth")
	w.maxOps = 4 + t.Draw(24, "max-ops")
	w.ctx, w.cancel = context.WithCancel(context.Background())
	a, b := dsim.NewBytePair("bs")
	w.ends = [2]*dsim.ByteEnd{a, b}
	// dirs[0]: written by end 0, read by end 1
	w.dirs[0] = &c08Dir{name: "0>1", pipe: a.W, poisonAt: -1}
	w.dirs[1] = &c08Dir{name: "1>0", pipe: b.W, poisonAt: -1}
	for i := range w.dirs {
		if t.Bool(1, 4, "err-with-data") {
			w.dirs[i].pipe.ErrWithData = true
		}
		if t.Bool(1, 4, "max-read") {
			w.dirs[i].pipe.MaxRead = 1 + t.Draw(7, "max-read-n")
		}
		// reader buffer plan: mostly large enough, sometimes too small
		for k := 0; k < 40; k++ {
			sz := int(w.max) + 8
			if t.Bool(1, 8, "small-buf") {
				sz = 1 + t.Draw(int(w.max), "buf")
			}
			w.dirs[i].bufSizes = append(w.dirs[i].bufSizes, sz)
		}
	}
	if w.variant == "pc" {
		w.pcs[0] = rwc.NewPacketConn(w.ctx, a, c08Addr("a"), c08Addr("b"), w.max, depth)
		w.pcs[1] = rwc.NewPacketConn(w.ctx, b, c08Addr("b"), c08Addr("a"), w.max, depth)
	} else {
		w.sess[0] = stream_packet.NewSession(a, w.max)
		w.sess[1] = stream_packet.NewSession(b, w.max)
	}
	slow := t.Bool(1, 4, "slow-reader")
	for i := 0; i < 2; i++ {
		if slow && i == 0 {
			continue // this reader is started later (queue fills up)
		}
		w.startReader(i)
	}
	if slow {
		s.Count("fault:slow-reader")
		w.lateReader = true
	}
}

// startReader starts the read loop of end i (which reads dirs[1-i]).
func (w *c08World) startReader(i int) {
	d := w.dirs[1-i]
	s := w.s
	go func() {
		for k := 0; ; k++ {
			sz := d.bufSizes[k%len(d.bufSizes)]
			var data []byte
			var err error
			if w.variant == "pc" {
				buf := make([]byte, sz)
				var n int
				var addr net.Addr
				n, addr, err = w.pcs[i].ReadFrom(buf)
				_ = addr
				data = buf[:n]
			} else {
				msg := srpc.NewRawMessage(nil, true)
				err = w.sess[i].RecvMsg(msg)
				data = msg.GetData()
			}
			if err != nil && !errors.Is(err, io.ErrShortBuffer) {
				d.ended, d.endErr = true, err
				s.Logf("reader %s ended after %d packets: %v", d.name, d.got, err)
				w.checkEnd(d)
				return
			}
			w.checkPacket(d, data, sz, err)
			if w.viol != nil {
				return
			}
		}
	}()
}

func (w *c08World) checkPacket(d *c08Dir, data []byte, bufSize int, err error) {
	s := w.s
	idx := d.got
	d.got++
	if d.poisonAt >= 0 && idx >= d.poisonAt {
		w.fail(&dsim.Violation{Property: "C08", Rule: "data-after-bad-prefix", Witness: w.variant,
			Detail: fmt.Sprintf("%s %s: reader returned a packet of %d bytes (#%d) after the stream carried an invalid length prefix at packet index %d", w.variant, d.name, len(data), idx, d.poisonAt)})
		return
	}
	if idx >= len(d.expected) {
		w.fail(&dsim.Violation{Property: "C08", Rule: "packet-from-nowhere", Witness: w.variant,
			Detail: fmt.Sprintf("%s %s: reader returned packet #%d (%d bytes) but only %d were written", w.variant, d.name, idx, len(data), len(d.expected))})
		return
	}
	want := d.expected[idx]
	if w.variant == "pc" && bufSize < len(want) {
		s.Count("fault:short-buffer")
		if !errors.Is(err, io.ErrShortBuffer) {
			w.fail(&dsim.Violation{Property: "C08", Rule: "short-buffer-not-reported", Witness: "pc",
				Detail: fmt.Sprintf("%s: packet #%d has %d bytes, buffer %d, ReadFrom returned n=%d err=%v", d.name, idx, len(want), bufSize, len(data), err)})
			return
		}
		if !bytes.Equal(data, want[:bufSize]) {
			w.fail(&dsim.Violation{Property: "C08", Rule: "short-buffer-wrong-bytes", Witness: "pc", Detail: fmt.Sprintf("%s: packet #%d prefix mismatch", d.name, idx)})
		}
		s.Count("done:packet")
		return
	}
	if err != nil {
		w.fail(&dsim.Violation{Property: "C08", Rule: "spurious-short-buffer", Witness: w.variant,
			Detail: fmt.Sprintf("%s: packet #%d has %d bytes, buffer %d, err=%v", d.name, idx, len(want), bufSize, err)})
		return
	}
	if !bytes.Equal(data, want) {
		w.fail(&dsim.Violation{Property: "C08", Rule: "packet-mismatch", Witness: w.variant + "/" + mismatchKind(data, want),
			Detail: fmt.Sprintf("%s %s: packet #%d: got %d bytes %x…, written %d bytes %x…", w.variant, d.name, idx, len(data), head(data), len(want), head(want))})
		return
	}
	s.Count("done:packet")
}

func head(b []byte) []byte {
	if len(b) > 12 {
		return b[:12]
	}
	return b
}

func mismatchKind(got, want []byte) string {
	if len(got) != len(want) {
		return "boundary"
	}
	return "content"
}

// checkEnd validates a terminal error.
func (w *c08World) checkEnd(d *c08Dir) {
	// A terminal error is legitimate if the stream was poisoned, closed, reset, or the
	// world is being torn down. Otherwise it is a spurious failure.
	if d.poisonAt >= 0 || d.writerDead || w.ctx.Err() != nil {
		return
	}
	w.fail(&dsim.Violation{Property: "C08", Rule: "spurious-connection-error", Witness: w.variant,
		Detail: fmt.Sprintf("%s %s: reader failed with %v after %d packets although the stream is intact", w.variant, d.name, d.endErr, d.got)})
}

func (w *c08World) payload(n int) []byte {
	w.ops++
	b := make([]byte, n)
	x := uint64(w.ops)*0x9e3779b97f4a7c15 + 12345
	for i := range b {
		x = x*6364136223846793005 + 1442695040888963407
		b[i] = byte(x >> 56)
	}
	if n > 0 {
		b[0] = byte(w.ops) // make consecutive packets differ visibly
	}
	return b
}

func (w *c08World) drawSize(t *dsim.Tape) int {
	m := int(w.max)
	switch t.Draw(8, "size-kind") {
	case 0:
		return 1
	case 1:
		return m
	case 2:
		return m - 1
	case 3:
		return 2
	case 4:
		return m + 1 // over the limit on send
	default:
		return 1 + t.Draw(m, "size")
	}
}

func (w *c08World) Actions(s *dsim.Sim, add func(dsim.Action)) {
	for _, d := range w.dirs {
		if a, ok := d.pipe.DeliverAction(s); ok {
			add(a)
		}
	}
	if w.lateReader && (s.Phase == dsim.PhaseStable || w.ops > w.maxOps/2) {
		add(dsim.Action{Name: "3op:start-late-reader", Weight: 3, Fire: func() { w.lateReader = false; w.startReader(0) }})
	}
	if s.Phase == dsim.PhaseStable || w.ops >= w.maxOps {
		return
	}
	for i, d := range w.dirs {
		i, d := i, d
		if d.writerDead {
			continue
		}
		add(dsim.Action{Name: "3op:write:" + d.name, Weight: 8, Fire: func() {
			n := w.drawSize(s.Tape)
			p := w.payload(n)
			var err error
			if w.variant == "pc" {
				_, err = w.pcs[i].WriteTo(p, c08Addr(map[int]string{0: "b", 1: "a"}[i]))
			} else {
				err = w.sess[i].SendMsg(srpc.NewRawMessage(p, false))
			}
			s.Logf("write %s %d bytes err=%v", d.name, n, err)
			if err != nil {
				return
			}
			if n > int(w.max) {
				s.Count("fault:oversize-send")
				if d.poisonAt < 0 {
					d.poisonAt = len(d.expected)
				}
				return
			}
			if d.poisonAt < 0 {
				d.expected = append(d.expected, p)
			}
		}})
		if w.variant == "sess" {
			add(dsim.Action{Name: "3op:write-empty:" + d.name, Weight: 1, Fire: func() {
				w.ops++
				err := w.sess[i].SendMsg(srpc.NewRawMessage(nil, false))
				s.Logf("write-empty %s err=%v", d.name, err)
				if err == nil && d.poisonAt < 0 {
					d.expected = append(d.expected, []byte{})
				}
			}})
		}
		add(dsim.Action{Name: "5flt:raw:" + d.name, Weight: 1, Fault: true, Fire: func() {
			w.ops++
			var hdr [4]byte
			k := s.Tape.Draw(3, "raw-kind")
			switch k {
			case 0:
				binary.LittleEndian.PutUint32(hdr[:], 0)
				s.Count("fault:raw-zero-prefix")
			case 1:
				binary.LittleEndian.PutUint32(hdr[:], w.max+1)
				s.Count("fault:raw-overlimit-prefix")
			case 2:
				binary.LittleEndian.PutUint32(hdr[:], 0xFFFFFFFF)
				s.Count("fault:raw-huge-prefix")
			}
			_, _ = d.pipe.Write(hdr[:])
			s.Logf("raw prefix %s kind=%d", d.name, k)
			if k == 0 && w.variant == "sess" {
				// legitimate empty message
				if d.poisonAt < 0 {
					d.expected = append(d.expected, []byte{})
				}
				return
			}
			if d.poisonAt < 0 {
				d.poisonAt = len(d.expected)
			}
		}})
		add(dsim.Action{Name: "5flt:eof-mid-frame:" + d.name, Weight: 1, Fault: true, Fire: func() {
			w.ops++
			s.Count("fault:eof-mid-frame")
			// a frame header promising more than what follows, then the writer goes away
			var hdr [4]byte
			binary.LittleEndian.PutUint32(hdr[:], 5)
			_, _ = d.pipe.Write(hdr[:])
			_, _ = d.pipe.Write([]byte{1, 2})
			if d.poisonAt < 0 {
				d.poisonAt = len(d.expected)
			}
			d.writerDead = true
			d.pipe.CloseWrite()
		}})
		add(dsim.Action{Name: "5flt:reset:" + d.name, Weight: 1, Fault: true, Fire: func() {
			w.ops++
			s.Count("fault:reset")
			d.writerDead = true
			d.lossy = true // whatever was in flight may be lost; nothing new may appear
			if d.poisonAt < 0 {
				d.poisonAt = len(d.expected)
			}
			d.pipe.Reset(dsim.ErrByteReset)
		}})
	}
}

func (w *c08World) Invariant(s *dsim.Sim) *dsim.Violation { return w.viol }

func (w *c08World) Done(s *dsim.Sim) bool { return true }

func (w *c08World) Final(s *dsim.Sim, stuck bool) *dsim.Violation {
	if w.viol != nil {
		return w.viol
	}
	// everything written before any poison must have been read (completeness)
	for i, d := range w.dirs {
		if w.lateReader && i == 1 {
			continue
		}
		limit := len(d.expected)
		if d.lossy {
			continue
		}
		if d.got < limit {
			return &dsim.Violation{Property: "C08", Rule: "packets-lost", Witness: w.variant,
				Detail: fmt.Sprintf("%s %s: %d packets written before any fault, only %d read at quiescence (ended=%v err=%v)", w.variant, d.name, limit, d.got, d.ended, d.endErr)}
		}
		if d.poisonAt >= 0 && !d.ended {
			return &dsim.Violation{Property: "C08", Rule: "bad-prefix-not-reported", Witness: w.variant,
				Detail: fmt.Sprintf("%s %s: the stream carried an invalid/over-limit/truncated frame after %d packets but the reader never reported an error", w.variant, d.name, d.poisonAt)}
		}
	}
	return nil
}

func (w *c08World) Teardown(s *dsim.Sim) {
	w.cancel()
	for _, e := range w.ends {
		e.W.Reset(dsim.ErrByteReset)
		e.R.Reset(dsim.ErrByteReset)
	}
}
