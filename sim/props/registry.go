// Package props holds one scenario (workload + fault space + oracle) per claimed property.
package props

import (
	"sort"
	"time"

	"verif/sim/dsim"
)

// Spec describes how a property is explored.
type Spec struct {
	ID    string
	World string
	// New returns a fresh world for one run. variant selects a configuration
	// (e.g. fault-free vs fault-injecting); it is derived from the run seed.
	New func() dsim.World
	Cfg dsim.Config
	// Real / Stub component lists for evidence.
	Real, Stub []string
	// FaultKinds this scenario can inject (names of Stats keys with prefix "fault:").
	FaultKinds []string
	Notes      []string
	// Warm lists scenario constructors that the per-process warm-up must run once each
	// (rarely chosen scenarios whose first execution triggers one-time initialisation).
	Warm []func() dsim.World
}

var registry = map[string]*Spec{}

func register(s *Spec) { registry[s.ID] = s }

// Get returns the spec of a property.
func Get(id string) *Spec { return registry[id] }

// IDs lists registered property ids.
func IDs() []string {
	var out []string
	for k := range registry {
		out = append(out, k)
	}
	sort.Strings(out)
	return out
}

var defaultCfg = dsim.Config{MaxChaosSteps: 120, MaxStableSteps: 4000, Horizon: 30 * time.Minute}
