package props

import (
	"context"
	"fmt"
	"io"
	"time"

	"github.com/aperturerobotics/bifrost/link"
	link_holdopen_controller "github.com/aperturerobotics/bifrost/link/hold-open"
	"github.com/aperturerobotics/bifrost/peer"
	"github.com/aperturerobotics/bifrost/protocol"
	"github.com/aperturerobotics/bifrost/stream"
	"github.com/aperturerobotics/controllerbus/directive"
	"github.com/sirupsen/logrus"

	"verif/sim/dsim"
	"verif/sim/worlds/sig"
)

// C33: hold-open keeps a peer's link open exactly while links exist.
//
// World HOLD: the real link/hold-open Controller handles an EstablishLinkWithPeer
// directive whose directive.Instance is a lock-free fake with exact accounting of
// outstanding strong (non-weak) references. Tasks deliver value-added / value-removed
// callbacks for 1-3 links and finally (sometimes) instance-disposed; the callbacks and
// the controller's asynchronous reference-acquiring goroutine park at armed scheduling
// points, so callbacks for different links overlap and the acquisition lands at an
// arbitrary later point (rapid add+remove, concurrent adds). The callbacks of one link
// are never reordered or overlapped (no directive bus does that).
//
// Oracle at quiescence (no parked task, no pending callback, instance not disposed):
// outstanding strong references held through the fake instance > 0 exactly when live
// links > 0. (How many references are held while links exist is not constrained.)
type c33World struct {
	s        *dsim.Sim
	di       *fakeInstance
	ctrl     *link_holdopen_controller.Controller
	links    map[int]bool // link id -> currently added
	busy     int          // callbacks in flight
	ops      int
	maxOps   int
	disposed bool
	viol     *dsim.Violation
	nLinks   int
	inflight map[int]bool // a callback for this link is running (a bus never reorders or overlaps the callbacks of one value)
}

type fakeRef struct {
	di       *fakeInstance
	weak     bool
	released bool
}

func (r *fakeRef) Release() {
	if r.released {
		return
	}
	r.released = true
	if !r.weak {
		r.di.strong--
		r.di.s.Logf("strong-ref released (now %d)", r.di.strong)
	}
}

type fakeInstance struct {
	s       *dsim.Sim
	dir     directive.Directive
	ctx     context.Context
	strong  int
	maxSeen int
	handler directive.ReferenceHandler
	adds    int
}

func (f *fakeInstance) GetContext() context.Context       { return f.ctx }
func (f *fakeInstance) GetDirective() directive.Directive { return f.dir }
func (f *fakeInstance) GetDirectiveIdent() string         { return "EstablishLinkWithPeer" }
func (f *fakeInstance) GetResolverErrors() []error        { return nil }
func (f *fakeInstance) AddReference(cb directive.ReferenceHandler, weak bool) directive.Reference {
	if cb != nil && f.handler == nil {
		f.handler = cb
	}
	if !weak {
		f.strong++
		f.adds++
		if f.strong > f.maxSeen {
			f.maxSeen = f.strong
		}
		f.s.Logf("strong-ref added (now %d)", f.strong)
	}
	return &fakeRef{di: f, weak: weak}
}
func (f *fakeInstance) AddDisposeCallback(cb func()) func()                { return func() {} }
func (f *fakeInstance) AddIdleCallback(cb directive.IdleCallback) func()   { return func() {} }
func (f *fakeInstance) AddStateCallback(cb directive.StateCallback) func() { return func() {} }
func (f *fakeInstance) CloseIfUnreferenced(inclWeakRefs bool) bool         { return false }
func (f *fakeInstance) Close()                                             {}

type fakeMountedLink struct {
	id   int
	peer peer.ID
}

func (l *fakeMountedLink) GetLinkUUID() uint64            { return uint64(l.id) }
func (l *fakeMountedLink) GetTransportUUID() uint64       { return 1 }
func (l *fakeMountedLink) GetRemoteTransportUUID() uint64 { return 2 }
func (l *fakeMountedLink) GetLocalPeer() peer.ID          { return l.peer }
func (l *fakeMountedLink) GetRemotePeer() peer.ID         { return l.peer }
func (l *fakeMountedLink) OpenMountedStream(ctx context.Context, protocolID protocol.ID, opts stream.OpenOpts) (link.MountedStream, error) {
	return nil, io.EOF
}

func init() {
	register(&Spec{
		ID: "C33", World: "HOLD",
		New:        func() dsim.World { return &c33World{} },
		Cfg:        dsim.Config{MaxChaosSteps: 80, MaxStableSteps: 800, Horizon: time.Minute},
		Real:       []string{"link/hold-open Controller.HandleDirective and establishLinkHandler (HandleValueAdded, HandleValueRemoved, HandleInstanceDisposed, asynchronous reference acquisition)"},
		Stub:       []string{"directive.Instance replaced by a lock-free fake with exact strong/weak reference accounting", "mounted links are inert stubs"},
		FaultKinds: []string{"fault:rapid-add-remove", "fault:concurrent-adds", "fault:dispose"},
	})
}

func (w *c33World) Setup(s *dsim.Sim) {
	w.s = s
	t := s.Tape
	lg := logrus.New()
	lg.SetOutput(io.Discard)
	le := logrus.NewEntry(lg)
	p := sig.NewParty("X", 3)
	w.di = &fakeInstance{s: s, ctx: context.Background(), dir: link.NewEstablishLinkWithPeer("", p.ID)}
	c, err := link_holdopen_controller.NewController(nil, le)
	if err != nil {
		panic(err)
	}
	w.ctrl = c
	s.KeyAlias = func(k string) string { return "X" }
	s.ArmFraction([]int{100, 100, 50, 0}[t.Draw(4, "arm-pct")], []string{"holdopen/", "go:link/hold-open/"})
	_, _ = c.HandleDirective(context.Background(), w.di)
	w.links = map[int]bool{}
	w.inflight = map[int]bool{}
	w.nLinks = 1 + t.Draw(3, "links")
	w.maxOps = 2 + t.Draw(10, "max-ops")
}

func (w *c33World) live() int {
	n := 0
	for _, v := range w.links {
		if v {
			n++
		}
	}
	return n
}

func (w *c33World) Actions(s *dsim.Sim, add func(dsim.Action)) {
	if s.Phase == dsim.PhaseStable || w.ops >= w.maxOps || w.disposed || w.di.handler == nil {
		return
	}
	h := w.di.handler
	for id := 0; id < w.nLinks; id++ {
		id := id
		val := directive.NewAttachedValue(uint32(id+1), link.MountedLink(&fakeMountedLink{id: id, peer: "x"}))
		if w.inflight[id] {
			continue
		}
		if !w.links[id] {
			add(dsim.Action{Name: fmt.Sprintf("3op:add:%d", id), Weight: 5, Fire: func() {
				w.ops++
				if w.busy > 0 {
					s.Count("fault:concurrent-adds")
				}
				w.links[id] = true
				w.busy++
				s.Logf("value-added link%d", id)
				w.inflight[id] = true
				go func() { h.HandleValueAdded(w.di, val); w.busy--; w.inflight[id] = false; s.Count("done:callback") }()
			}})
		} else {
			add(dsim.Action{Name: fmt.Sprintf("3op:remove:%d", id), Weight: 5, Fire: func() {
				w.ops++
				if w.busy > 0 || s.ParkedCount() > 0 {
					s.Count("fault:rapid-add-remove")
				}
				w.links[id] = false
				w.busy++
				s.Logf("value-removed link%d", id)
				w.inflight[id] = true
				go func() { h.HandleValueRemoved(w.di, val); w.busy--; w.inflight[id] = false; s.Count("done:callback") }()
			}})
		}
	}
	if w.ops > 2 && w.busy == 0 {
		add(dsim.Action{Name: "5flt:dispose", Weight: 1, Fault: true, Fire: func() {
			w.ops++
			s.Count("fault:dispose")
			w.disposed = true
			for id := range w.links {
				w.links[id] = false
			}
			w.busy++
			go func() { h.HandleInstanceDisposed(w.di); w.busy--; s.Count("done:callback") }()
		}})
	}
}

func (w *c33World) check(s *dsim.Sim) *dsim.Violation {
	if w.busy > 0 || s.ParkedCount() > 0 {
		return nil
	}
	live := w.live()
	s.NoteState(dsim.Mix(uint64(live), uint64(w.di.strong), uint64(w.di.adds)))
	if w.disposed {
		// a reference to a disposed instance holds nothing; the request is gone
		return nil
	}
	if live > 0 && w.di.strong == 0 {
		return &dsim.Violation{Property: "C33", Rule: "no-reference-while-links-exist", Witness: "links>0,refs=0",
			Detail: fmt.Sprintf("%d live links but no strong reference is held at quiescence", live)}
	}
	if live == 0 && w.di.strong > 0 {
		k := "links=0,refs>0"
		if w.di.maxSeen > 1 {
			k = "links=0,refs>0,duplicate-acquired"
		}
		return &dsim.Violation{Property: "C33", Rule: "reference-held-without-links", Witness: k,
			Detail: fmt.Sprintf("no live links but %d strong reference(s) still held at quiescence: the request can never expire", w.di.strong)}
	}
	return nil
}

func (w *c33World) Invariant(s *dsim.Sim) *dsim.Violation {
	if w.viol != nil {
		return w.viol
	}
	return w.check(s)
}
func (w *c33World) Done(s *dsim.Sim) bool { return w.busy == 0 && s.ParkedCount() == 0 }
func (w *c33World) Final(s *dsim.Sim, stuck bool) *dsim.Violation {
	if w.busy > 0 {
		s.Inconclusive = "harness: callbacks still running"
		return nil
	}
	s.Count("done:quiescent-check")
	return w.check(s)
}
func (w *c33World) Teardown(s *dsim.Sim) {}
