package props

import (
	"bytes"
	"context"
	"fmt"
	"io"
	"strings"
	"time"

	"github.com/aperturerobotics/bifrost/link"
	"github.com/aperturerobotics/bifrost/protocol"
	"github.com/aperturerobotics/bifrost/stream"
	"github.com/aperturerobotics/controllerbus/directive"
	protobuf_go_lite "github.com/aperturerobotics/protobuf-go-lite"

	"verif/sim/dsim"
	"verif/sim/worlds/node"
)

// C07: stream headers are framed exactly and dispatched to the named protocol.
//
// World NODE: one real bus with two real transport controllers (S1, S2) joined by a
// simlink pair. Valid openers use the real mountedLink.OpenMountedStream on S1's side
// (obtained through an EstablishLinkWithPeer directive) with protocol IDs of 1 … the
// 100 000-byte header limit (biased to 1, 2, 3, 126-129, 16382-16385, limit-1, limit),
// arbitrary UTF-8, immediately followed by 0-4 KiB of payload; the bytes cross a
// simulator-owned stream to S2's real HandleIncomingStream. Malformed openers are played
// by the harness on S2's side of the link: empty then EOF, zero length, over-limit
// length, 5-byte varint, truncated header then EOF, undecodable protobuf, invalid UTF-8
// and empty protocol ID, header stalled until the 5 s fake deadline, reset mid-header.
// Delivery is chunked by the driver (1 byte at a time, splits inside the varint, header
// and payload in one read).
//
// Oracle: a valid header leads to exactly one HandleMountedStream lookup whose directive
// carries the written protocol ID, local peer S2 and remote peer S1, and the handler reads
// exactly the payload (first byte after the header onward, nothing lost or duplicated);
// a malformed header leads to the stream being closed and never to a handler invocation.
type c07World struct {
	s          *dsim.Sim
	net        *node.Net
	nd         *node.Node
	a, b       *node.TC
	la, lb     *node.SimLink
	mlnk       link.MountedLink
	cases      []*c07Case
	ops        int
	maxOps     int
	viol       *dsim.Violation
	byPID      map[string]*c07Case
	limit      int
	validOpens int
}

type c07Case struct {
	id       int
	kind     string // "valid" or a malformed kind
	pid      string
	payload  []byte
	remote   *node.SimStream // harness end (malformed) or nil
	lookups  int
	handled  int
	got      []byte
	readErr  error
	doneRead bool
	dirOK    bool
	opened   bool
	openIdx  int // index into la.Opened
}

func init() {
	register(&Spec{
		ID: "C07", World: "NODE",
		New:        func() dsim.World { return &c07World{} },
		Cfg:        dsim.Config{MaxChaosSteps: 160, MaxStableSteps: 20000, Horizon: 30 * time.Second},
		Real:       []string{"transport/controller: mountedLink.OpenMountedStream + writeStreamEstablishHeader (opener), establishedLink.acceptStreamPump, HandleIncomingStream, readStreamEstablishHeader, protocol.ID.Validate, HandleMountedStream lookup via the bus", "controllerbus bus + directive controller"},
		Stub:       []string{"simlink pair between the two transport controllers; byte delivery chunked by the driver", "harness HandleMountedStream handler controller", "malformed openers are harness-written raw bytes"},
		FaultKinds: []string{"fault:chunking", "fault:malformed-empty", "fault:malformed-zero-length", "fault:malformed-over-limit", "fault:malformed-long-varint", "fault:malformed-truncated", "fault:malformed-bad-protobuf", "fault:malformed-bad-utf8", "fault:malformed-empty-pid", "fault:stall-to-deadline", "fault:reset-mid-header", "fault:clock-jump"},
	})
}

func (w *c07World) fail(v *dsim.Violation) {
	if w.viol == nil {
		w.viol = v
	}
}

type c07Watch struct{ w *c07World }

func (h *c07Watch) HandleValueAdded(_ directive.Instance, v directive.AttachedValue) {
	if ml, ok := v.GetValue().(link.MountedLink); ok && h.w.mlnk == nil {
		h.w.mlnk = ml
	}
}
func (h *c07Watch) HandleValueRemoved(directive.Instance, directive.AttachedValue) {}
func (h *c07Watch) HandleInstanceDisposed(directive.Instance)                      {}

func (w *c07World) Setup(s *dsim.Sim) {
	w.s = s
	t := s.Tape
	w.limit = 100000
	w.net = node.NewNet(s)
	w.nd = w.net.AddNode("N", "S1", "S2")
	w.a = w.nd.AddTransport("t1", "S1")
	w.b = w.nd.AddTransport("t2", "S2")
	w.byPID = map[string]*c07Case{}
	w.maxOps = 2 + t.Draw(8, "max-ops")
	w.nd.AddController(&node.HandlerCtl{ID: "c07", Match: w.match, Fn: w.handle})
	// keep the link referenced from both sides for the whole run
	_, _, _ = w.nd.Bus.AddDirective(link.NewEstablishLinkWithPeer(w.a.P.ID, w.b.P.ID), &c07Watch{w})
	_, _, _ = w.nd.Bus.AddDirective(link.NewEstablishLinkWithPeer(w.b.P.ID, w.a.P.ID), nil)
	w.la, w.lb = w.net.NewLinkPair(w.a.Tpt, w.b.Tpt, "L", 77)
	w.a.Tpt.Handler.HandleLinkEstablished(w.la)
	w.b.Tpt.Handler.HandleLinkEstablished(w.lb)
}

// match records the lookup and answers for every protocol.
func (w *c07World) match(d link.HandleMountedStream) bool {
	pid := string(d.HandleMountedStreamProtocolID())
	c := w.byPID[pid]
	if c == nil {
		w.fail(&dsim.Violation{Property: "C07", Rule: "lookup-for-unwritten-protocol", Witness: "unknown-pid",
			Detail: fmt.Sprintf("HandleMountedStream lookup for protocol %q (%d bytes) which no opener wrote", clip(pid), len(pid))})
		return false
	}
	c.lookups++
	if d.HandleMountedStreamLocalPeerID() != w.b.P.ID || d.HandleMountedStreamRemotePeerID() != w.a.P.ID {
		w.fail(&dsim.Violation{Property: "C07", Rule: "lookup-with-wrong-peers", Witness: "local/remote",
			Detail: fmt.Sprintf("lookup for %q carries local=%s remote=%s, the link is S2<-S1", clip(pid), w.net.Names[d.HandleMountedStreamLocalPeerID().String()], w.net.Names[d.HandleMountedStreamRemotePeerID().String()])})
	}
	if c.kind != "valid" {
		w.fail(&dsim.Violation{Property: "C07", Rule: "malformed-header-dispatched", Witness: c.kind,
			Detail: fmt.Sprintf("case #%d (%s) reached the handler lookup with protocol %q", c.id, c.kind, clip(pid))})
	}
	return true
}

func clip(s string) string {
	if len(s) > 24 {
		return s[:24] + "…"
	}
	return s
}

func (w *c07World) handle(ctx context.Context, ms link.MountedStream) error {
	pid := string(ms.GetProtocolID())
	c := w.byPID[pid]
	if c == nil {
		w.fail(&dsim.Violation{Property: "C07", Rule: "handler-for-unwritten-protocol", Witness: "unknown-pid", Detail: clip(pid)})
		return nil
	}
	c.handled++
	if c.handled > 1 {
		w.fail(&dsim.Violation{Property: "C07", Rule: "dispatched-twice", Witness: "handler-invocations>1", Detail: fmt.Sprintf("case #%d", c.id)})
	}
	if ms.GetPeerID() != w.a.P.ID || ms.GetLink().GetLocalPeer() != w.b.P.ID {
		w.fail(&dsim.Violation{Property: "C07", Rule: "stream-with-wrong-peers", Witness: "mounted-stream", Detail: fmt.Sprintf("case #%d", c.id)})
	}
	st := ms.GetStream()
	go func() {
		buf := make([]byte, len(c.payload)+16)
		n := 0
		for n < len(c.payload) {
			k, err := st.Read(buf[n:])
			n += k
			if err != nil {
				c.readErr = err
				break
			}
		}
		c.got = buf[:n]
		c.doneRead = true
		w.s.Count("done:payload-read")
		if !bytes.Equal(c.got, c.payload) && c.readErr == nil {
			w.fail(&dsim.Violation{Property: "C07", Rule: "payload-mismatch", Witness: mismatchKind(c.got, c.payload),
				Detail: fmt.Sprintf("case #%d pid %d bytes: handler read %d bytes %x…, the opener wrote %d bytes %x… after the header", c.id, len(c.pid), len(c.got), head(c.got), len(c.payload), head(c.payload))})
		}
	}()
	return nil
}

func (w *c07World) drawPID(t *dsim.Tape) string {
	// max pid length for which the header message is exactly the limit: 1 tag + 3 len + L
	maxL := w.limit - 4
	var n int
	switch t.Draw(12, "pid-len-kind") {
	case 0:
		n = 1
	case 1:
		n = 2
	case 2:
		n = 3
	case 3:
		n = 126 + t.Draw(4, "d")
	case 4:
		n = 16382 + t.Draw(4, "d")
	case 5:
		n = maxL - 1
	case 6:
		n = maxL
	case 7:
		n = 123 + t.Draw(8, "d") // header length around 127/128
	default:
		n = 1 + t.Draw(300, "pid-len")
	}
	var sb strings.Builder
	alphabet := []string{"a", "b", "/", "é", "世", "-", "0"}
	id := fmt.Sprintf("p%d/", len(w.cases))
	sb.WriteString(id)
	for sb.Len() < n {
		sb.WriteString(alphabet[t.Draw(len(alphabet), "ch")])
		if sb.Len() > 64 && n > sb.Len() {
			// long tails are filled cheaply
			sb.WriteString(strings.Repeat("x", n-sb.Len()))
		}
	}
	s := sb.String()
	for len(s) > n && n >= len(id) {
		s = s[:len(s)-1]
	}
	if n < len(id) {
		s = id[:n]
	}
	// trimming may cut a multi-byte rune: repair to valid UTF-8
	for !protocolValid(s) && len(s) > 0 {
		s = s[:len(s)-1] + "a"
		if protocolValid(s) {
			break
		}
		s = s[:len(s)-1]
	}
	return s
}

func protocolValid(s string) bool { return protocol.ID(s).Validate() == nil }

func (w *c07World) Actions(s *dsim.Sim, add func(dsim.Action)) {
	w.net.Actions(add)
	if s.Phase == dsim.PhaseStable || w.ops >= w.maxOps || w.mlnk == nil {
		return
	}
	t := s.Tape
	add(dsim.Action{Name: "3op:open-valid", Weight: 8, Fire: func() {
		w.ops++
		pid := w.drawPID(t)
		if w.byPID[pid] != nil || !protocolValid(pid) {
			return
		}
		c := &c07Case{id: len(w.cases), kind: "valid", pid: pid, openIdx: w.validOpens}
		w.validOpens++
		n := []int{0, 1, 7, 4096}[t.Draw(4, "payload-kind")]
		if n == 7 {
			n = 1 + t.Draw(600, "payload-len")
		}
		c.payload = make([]byte, n)
		for i := range c.payload {
			c.payload[i] = byte(0x41 + (i+c.id)%53)
		}
		w.cases = append(w.cases, c)
		w.byPID[pid] = c
		s.Logf("open valid #%d pid=%d bytes payload=%d", c.id, len(pid), n)
		go func() {
			ms, err := w.mlnk.OpenMountedStream(context.Background(), protocol.ID(pid), stream.OpenOpts{})
			if err != nil {
				w.fail(&dsim.Violation{Property: "C07", Rule: "open-failed", Witness: "valid-pid", Detail: err.Error()})
				return
			}
			c.opened = true
			if len(c.payload) > 0 {
				_, _ = ms.GetStream().Write(c.payload)
			}
		}()
	}})
	add(dsim.Action{Name: "5flt:open-malformed", Weight: 5, Fault: true, Fire: func() {
		w.ops++
		kinds := []string{"empty", "zero-length", "over-limit", "long-varint", "truncated", "bad-protobuf", "bad-utf8", "empty-pid", "stall", "reset"}
		k := kinds[t.Draw(len(kinds), "malformed-kind")]
		c := &c07Case{id: len(w.cases), kind: k}
		w.cases = append(w.cases, c)
		st := w.lb.InjectStream()
		c.remote = st
		marker := fmt.Sprintf("m%d-%s", c.id, k)
		w.byPID[marker] = c
		good := headerBytes(protocol.ID(marker))
		fault := "malformed-" + k
		switch k {
		case "empty":
			_ = st.End().W
			st.End().W.CloseWrite()
		case "zero-length":
			_, _ = st.Write([]byte{0, 0, 0, 0, 0, 0})
		case "over-limit":
			b := protobuf_go_lite.AppendVarint(nil, uint64(w.limit+1))
			_, _ = st.Write(append(b, good...))
		case "long-varint":
			_, _ = st.Write([]byte{0x80, 0x80, 0x80, 0x80, 0x01})
			_, _ = st.Write(good)
		case "truncated":
			cut := 1 + t.Draw(len(good)-1, "cut")
			_, _ = st.Write(good[:cut])
			st.End().W.CloseWrite()
		case "bad-protobuf":
			_, _ = st.Write([]byte{6, 0x0a, 0x7f, 'a', 'b', 'c', 'd'}) // field 1 claims 127 bytes, only 4 follow inside a 6-byte message
		case "bad-utf8":
			bad := "m\xff\xfe" + marker
			w.byPID[bad] = c
			_, _ = st.Write(headerBytes(protocol.ID(bad)))
		case "empty-pid":
			// a message with an unknown field only: protocol id stays empty
			_, _ = st.Write([]byte{2, 0x10, 0x01, 0, 0})
			w.byPID[""] = c
		case "stall":
			fault = "stall-to-deadline"
			cut := 1 + t.Draw(len(good)-1, "cut")
			_, _ = st.Write(good[:cut])
		case "reset":
			fault = "reset-mid-header"
			cut := 1 + t.Draw(len(good)-1, "cut")
			_, _ = st.Write(good[:cut])
			w.net.Defer(fmt.Sprintf("5flt:reset-stream:%d", c.id), func() { st.Reset() })
		}
		s.Count("fault:" + fault)
		s.Logf("open malformed #%d %s", c.id, k)
	}})
}

func (w *c07World) quiet(s *dsim.Sim) bool { return s.ParkedCount() == 0 && w.net.Idle() }

func (w *c07World) Invariant(s *dsim.Sim) *dsim.Violation { return w.viol }

func (w *c07World) Done(s *dsim.Sim) bool {
	for _, c := range w.cases {
		if c.kind == "valid" && !c.doneRead {
			if c.openIdx < len(w.la.Opened) && w.la.Opened[c.openIdx].Other().DeadlineHit {
				continue
			}
			return false
		}
		if c.kind != "valid" && !c.remote.Other().Closed {
			return false
		}
	}
	return true
}

func (w *c07World) Final(s *dsim.Sim, stuck bool) *dsim.Violation {
	if w.viol != nil {
		return w.viol
	}
	for _, c := range w.cases {
		if c.kind == "valid" {
			if !c.opened {
				continue
			}
			if c.handled == 0 && c.openIdx < len(w.la.Opened) && w.la.Opened[c.openIdx].Other().DeadlineHit {
				// the driver delayed the header beyond the 5 s establish deadline: closing the
				// stream without dispatch is the specified behaviour (a stalled header)
				s.Count("probe:valid-header-stalled-past-deadline")
				continue
			}
			if c.handled != 1 {
				return &dsim.Violation{Property: "C07", Rule: "valid-header-not-dispatched", Witness: fmt.Sprintf("handled=%d", c.handled),
					Detail: fmt.Sprintf("case #%d: protocol id of %d bytes, payload %d bytes: handler invoked %d times (lookups %d) at quiescence", c.id, len(c.pid), len(c.payload), c.handled, c.lookups)}
			}
			if !c.doneRead || !bytes.Equal(c.got, c.payload) {
				return &dsim.Violation{Property: "C07", Rule: "payload-mismatch", Witness: "incomplete",
					Detail: fmt.Sprintf("case #%d: handler read %d of %d payload bytes (err=%v)", c.id, len(c.got), len(c.payload), c.readErr)}
			}
			s.Count("done:valid-case")
			continue
		}
		if c.handled > 0 || c.lookups > 0 {
			return &dsim.Violation{Property: "C07", Rule: "malformed-header-dispatched", Witness: c.kind, Detail: fmt.Sprintf("case #%d", c.id)}
		}
		if !c.remote.Other().Closed {
			return &dsim.Violation{Property: "C07", Rule: "malformed-stream-not-closed", Witness: c.kind,
				Detail: fmt.Sprintf("case #%d (%s): the receiving side never closed the stream", c.id, c.kind)}
		}
		s.Count("done:malformed-case")
	}
	return nil
}

func (w *c07World) Teardown(s *dsim.Sim) {
	w.net.Close()
	for _, nd := range w.net.Nodes {
		nd.Shutdown()
	}
}

var _ = io.EOF
