package props

import (
	"fmt"
	"sort"
	"strings"
	"time"

	"github.com/aperturerobotics/bifrost/link"
	"github.com/aperturerobotics/bifrost/peer"
	"github.com/aperturerobotics/controllerbus/directive"
	"github.com/aperturerobotics/util/broadcast"

	"verif/sim/dsim"
	"verif/sim/worlds/node"
)

// C06: link tables stay consistent with the history of link events.
//
// World NODE: one real bus (controllerbus + peer controller) with one real transport
// controller over a simlink transport. The harness plays the transport: link objects
// for 1-3 remote peers with deliberately shared UUIDs, and events establish /
// duplicate-establish / replace-under-the-same-UUID / lose / duplicate-lose /
// lose-unknown, issued as transport callbacks that run as their own tasks. When the
// system closes a link (replacement, self-dial, loss) the stub owes exactly one
// HandleLinkLost for it, delivered at a driver-chosen later point (late, after the
// replacement). Readers (GetPeerLinks tasks, EstablishLinkWithPeer watchers) run
// throughout; the controller's lock sites are scheduling points and a reader may be
// parked while holding the lock so that the TryLock fast path of the handlers fails.
// Events that concern one UUID are issued one after the other (a transport reports the
// fate of one link identifier sequentially); events on different UUIDs overlap.
//
// Reference model, updated in call order per link object (the events of one object are
// issued sequentially, events of different objects overlap): an object is live iff an
// establish event was issued for it and no loss event since. Losses include the report
// the stub owes after the system itself closed the link (replacement, self-link), so the
// model never prescribes WHICH of two same-UUID links the system keeps, only that its
// tables equal "established and not yet lost". Oracle at quiescence: for every remote peer, GetPeerLinks and the values of a
// watcher directive equal the model; both internal tables (verif accessor) equal the
// model and each other; every link the model counts as lost or replaced had Close called;
// a link removed by a loss is not reported at a later quiescent point.
type c06World struct {
	s        *dsim.Sim
	net      *node.Net
	nd       *node.Node
	tc       *node.TC
	remotes  []string
	links    []*node.SimLink
	liveObj  map[*node.SimLink]bool // established (event called) and no loss event called since
	everLive map[*node.SimLink]bool
	hadRival map[*node.SimLink]bool // was live together with another object of its UUID at some point
	estSeq   map[*node.SimLink]int
	seq      int
	gone     []*node.SimLink       // links the model counts as lost/replaced/refused
	inflight map[uint64]int        // establish callbacks running per uuid (establishes on one uuid are sequential)
	busyObj  map[*node.SimLink]int // callbacks running per link object (one object's events are sequential)
	ops      int
	maxOps   int
	watch    map[string]*c06Watcher
	linkSeq  int
	viol     *dsim.Violation
	prop     string
}

type c06Watcher struct {
	w      *c06World
	peer   string
	values map[uint32]link.MountedLink
}

func (h *c06Watcher) HandleValueAdded(_ directive.Instance, v directive.AttachedValue) {
	if ml, ok := v.GetValue().(link.MountedLink); ok {
		h.values[v.GetValueID()] = ml
		h.w.onValue(h.peer, ml)
	}
}
func (h *c06Watcher) HandleValueRemoved(_ directive.Instance, v directive.AttachedValue) {
	delete(h.values, v.GetValueID())
}
func (h *c06Watcher) HandleInstanceDisposed(directive.Instance) {}

func init() {
	register(&Spec{
		ID: "C06", World: "NODE",
		New:        func() dsim.World { return &c06Switch{} },
		Warm:       []func() dsim.World{func() dsim.World { return &c06Quic{} }, func() dsim.World { return &c06World{prop: "C06"} }},
		Cfg:        dsim.Config{MaxChaosSteps: 120, MaxStableSteps: 3000, Horizon: 5 * time.Second},
		Real:       []string{"transport/controller.Controller (HandleLinkEstablished, HandleLinkLost, flushEstablishedLink, GetPeerLinks, EstablishLinkWithPeer resolver, establishedLink)", "controllerbus bus + directive controller", "peer controller", "QUIC scenario (1 run in 12): transport/common/quic.Transport (HandleSession usurp, handleLinkLost, address table), pconn.Transport, quic Link, quic-go and crypto/tls, under the real controller"},
		Stub:       []string{"NODE scenario: simlink transport: link objects and their callbacks are produced by the harness (a well-behaved link: one loss report per Close)", "util/broadcast lock instrumented (scheduling points, holder parking)", "QUIC scenario: net.PacketConn endpoints on the simulator's datagram network; three dialers share one source address"},
		FaultKinds: []string{"fault:duplicate-establish", "fault:replace-same-uuid", "fault:late-loss-after-replacement", "fault:duplicate-loss", "fault:loss-unknown-link", "fault:self-link", "fault:lock-contention", "fault:clock-jump", "fault:address-takeover", "fault:application-close", "fault:packet-loss", "fault:packet-dup", "fault:packet-reorder", "fault:packet-corrupt"},
	})
}

func (w *c06World) fail(v *dsim.Violation) {
	if w.viol == nil {
		w.viol = v
	}
}

func (w *c06World) onValue(peerName string, ml link.MountedLink) {
	// C04-style sanity inside C06: a watcher for peer p only ever sees links to p
	if w.net.Names[ml.GetRemotePeer().String()] != peerName {
		w.fail(&dsim.Violation{Property: w.prop, Rule: "watcher-got-link-to-other-peer", Witness: "remote-mismatch",
			Detail: fmt.Sprintf("watcher for %s was given a link whose remote peer is %s", peerName, w.net.Names[ml.GetRemotePeer().String()])})
	}
}

func (w *c06World) Setup(s *dsim.Sim) {
	w.s = s
	t := s.Tape
	broadcast.SimSlowPaths = 0
	w.net = node.NewNet(s)
	w.nd = w.net.AddNode("N", "S1")
	w.tc = w.nd.AddTransport("t1", "S1")
	w.remotes = []string{"D1", "D2", "D3"}[:1+t.Draw(3, "remotes")]
	w.liveObj = map[*node.SimLink]bool{}
	w.everLive = map[*node.SimLink]bool{}
	w.hadRival = map[*node.SimLink]bool{}
	w.estSeq = map[*node.SimLink]int{}
	w.inflight = map[uint64]int{}
	w.busyObj = map[*node.SimLink]int{}
	w.watch = map[string]*c06Watcher{}
	w.maxOps = 3 + t.Draw(16, "max-ops")
	for _, r := range w.remotes {
		h := &c06Watcher{w: w, peer: r, values: map[uint32]link.MountedLink{}}
		w.watch[r] = h
		_, _, err := w.nd.Bus.AddDirective(link.NewEstablishLinkWithPeer("", w.net.Party(r).ID), h)
		if err != nil {
			panic(err)
		}
	}
	arm := []int{0, 50, 100}[t.Draw(3, "arm-pct")]
	s.ArmFraction(arm, []string{"bl:bifrost/transport/controller/transport-handler.go", "bl:bifrost/transport/controller/controller.go", "go:transport/controller/"})
	if t.Bool(1, 2, "holder-park") {
		s.SetHolderPark(func(site string) bool { return strings.Contains(site, "bifrost/transport/controller/controller.go") })
	}
}

func (w *c06World) newLink(uuid uint64, remote string) *node.SimLink {
	w.linkSeq++
	var rp peer.ID
	if remote == "self" {
		rp = w.tc.P.ID
	} else {
		rp = w.net.Party(remote).ID
	}
	l := w.net.NewLink(w.tc.Tpt, fmt.Sprintf("L%d.u%d.%s", w.linkSeq, uuid, remote), uuid, rp)
	// the loss report the stub owes after a system Close goes through the model too
	l.LostFn = func() { w.lose(l, "owed") }
	l.OnSysClose = func() { w.onSysClose(l) }
	w.links = append(w.links, l)
	return l
}

// onSysClose checks that the system only closes a link the model counts as live for a
// cause: it is a self-link, or another link object with the same UUID is live (one of
// the two same-UUID links has to go; the property does not prescribe which when their
// establish callbacks overlap). A loss report for another, no longer live object is no
// cause: "losing an old link never removes a newer link that replaced it".
func (w *c06World) onSysClose(l *node.SimLink) {
	if !w.liveObj[l] || l.Rem == w.tc.P.ID || w.hadRival[l] {
		return
	}
	for o := range w.liveObj {
		if o != l && o.UUID == l.UUID && w.liveObj[o] {
			return
		}
	}
	kind := "no-live-replacement"
	if broadcast.SimSlowPaths >= 1 {
		// a deferred establish of a link that has meanwhile been lost displaces a live link
		kind = "no-live-replacement,deferred-callback-overtaken"
	}
	w.fail(&dsim.Violation{Property: w.prop, Rule: "live-link-closed-without-cause", Witness: kind,
		Detail: fmt.Sprintf("the system closed %s, which was established and not lost, is not a self-link, and no other live link carries its UUID", l.Name)})
}

// establish issues HandleLinkEstablished(l) and updates the model in call order.
func (w *c06World) establish(l *node.SimLink) {
	s := w.s
	switch {
	case w.liveObj[l]:
		s.Count("fault:duplicate-establish")
	case l.IsClosed():
		// re-reporting a link object that is already closed: it does not count as live
	default:
		if l.Rem == w.tc.P.ID {
			s.Count("fault:self-link")
		}
		for o := range w.liveObj {
			if o.UUID == l.UUID && w.liveObj[o] {
				s.Count("fault:replace-same-uuid")
				// one of the two has to go; the system may carry out that close later
				// (it closes links on separate goroutines), when the other is gone already
				w.hadRival[o], w.hadRival[l] = true, true
			}
		}
		w.liveObj[l] = true
		w.everLive[l] = true
		w.seq++
		w.estSeq[l] = w.seq
	}
	s.Logf("event establish %s", l.Name)
	w.inflight[l.UUID]++
	w.call(l, func() { w.tc.Tpt.Handler.HandleLinkEstablished(l); w.inflight[l.UUID]-- })
}

// lose issues HandleLinkLost(l) and updates the model in call order.
func (w *c06World) lose(l *node.SimLink, kind string) {
	s := w.s
	switch {
	case w.liveObj[l]:
		delete(w.liveObj, l)
		w.gone = append(w.gone, l)
		for o := range w.liveObj {
			if o.UUID == l.UUID {
				s.Count("fault:late-loss-after-replacement")
			}
		}
	case kind == "unknown":
		s.Count("fault:loss-unknown-link")
	default:
		s.Count("fault:duplicate-loss")
		for o := range w.liveObj {
			if o.UUID == l.UUID {
				s.Count("fault:late-loss-after-replacement")
			}
		}
	}
	s.Logf("event lost %s (%s)", l.Name, kind)
	w.call(l, func() { w.tc.Tpt.Handler.HandleLinkLost(l) })
}

func (w *c06World) call(l *node.SimLink, f func()) {
	w.busyObj[l]++
	go func() {
		f()
		w.busyObj[l]--
		w.s.Count("done:callback")
	}()
}

// current returns the most recently created live object with this uuid.
func (w *c06World) current(uuid uint64) *node.SimLink {
	for i := len(w.links) - 1; i >= 0; i-- {
		if l := w.links[i]; l.UUID == uuid && w.liveObj[l] {
			return l
		}
	}
	return nil
}

func (w *c06World) busy() int {
	n := 0
	for _, k := range w.busyObj {
		n += k
	}
	return n
}

func (w *c06World) Actions(s *dsim.Sim, add func(dsim.Action)) {
	// pending owed losses (from system Close calls) become loss events through lose()
	w.net.Actions(func(a dsim.Action) {
		add(a)
	})
	if s.Phase == dsim.PhaseStable || w.ops >= w.maxOps {
		return
	}
	t := s.Tape
	for _, uuid := range []uint64{1, 2} {
		uuid := uuid
		if w.inflight[uuid] == 0 {
			add(dsim.Action{Name: fmt.Sprintf("3op:establish-new:u%d", uuid), Weight: 6, Fire: func() {
				w.ops++
				r := w.remotes[t.Draw(len(w.remotes), "remote")]
				if t.Bool(1, 12, "self-link") {
					r = "self"
				}
				w.establish(w.newLink(uuid, r))
			}})
		}
		if cur := w.current(uuid); cur != nil && w.busyObj[cur] == 0 {
			if w.inflight[uuid] == 0 {
				add(dsim.Action{Name: fmt.Sprintf("3op:establish-dup:u%d", uuid), Weight: 2, Fire: func() { w.ops++; w.establish(cur) }})
			}
			add(dsim.Action{Name: fmt.Sprintf("3op:lose:u%d", uuid), Weight: 5, Fire: func() { w.ops++; w.lose(cur, "current") }})
		}
		// loss of some older object with this uuid (duplicate or late)
		for i := len(w.links) - 1; i >= 0; i-- {
			l := w.links[i]
			if l.UUID == uuid && !w.liveObj[l] && w.busyObj[l] == 0 && l.EstReported+l.LostReported < 4 {
				add(dsim.Action{Name: fmt.Sprintf("3op:lose-old:u%d", uuid), Weight: 2, Fire: func() { w.ops++; l.LostReported++; w.lose(l, "old") }})
				break
			}
		}
		add(dsim.Action{Name: fmt.Sprintf("3op:lose-unknown:u%d", uuid), Weight: 1, Fire: func() {
			w.ops++
			w.lose(w.newLink(uuid, w.remotes[0]), "unknown")
		}})
	}
	add(dsim.Action{Name: "3op:reader", Weight: 3, Fire: func() {
		w.ops++
		if s.ParkedCount() > 0 {
			s.Count("fault:lock-contention")
		}
		p := w.net.Party(w.remotes[t.Draw(len(w.remotes), "remote")]).ID
		go func() { _ = w.tc.Ctrl.GetPeerLinks(p) }()
	}})
}

func names(ls []link.Link) string {
	var out []string
	for _, l := range ls {
		if sl, ok := l.(*node.SimLink); ok {
			out = append(out, sl.Name)
		} else {
			out = append(out, fmt.Sprintf("uuid%d", l.GetUUID()))
		}
	}
	sort.Strings(out)
	return "[" + strings.Join(out, " ") + "]"
}

func (w *c06World) check(s *dsim.Sim) *dsim.Violation {
	if w.busy() > 0 || s.ParkedCount() > 0 || !w.net.Idle() {
		return nil
	}
	byUUID, byPeer := w.tc.Ctrl.VerifLinks()
	var st []string
	for _, r := range w.remotes {
		pid := w.net.Party(r).ID
		var want []link.Link
		for _, l := range w.links {
			if w.liveObj[l] && l.Rem == pid {
				want = append(want, l)
			}
		}
		got := w.tc.Ctrl.GetPeerLinks(pid)
		st = append(st, r+names(want))
		if names(got) != names(want) {
			kind := "missing-link"
			if len(got) > len(want) {
				kind = "stale-link"
				if broadcast.SimSlowPaths >= 1 {
					// at least one transport callback found the controller lock busy and was
					// deferred to a goroutine (HoldLockMaybeAsync): a later callback for the same
					// link can then be applied before it
					kind = "stale-link,deferred-callback-overtaken"
				}
			}
			return &dsim.Violation{Property: w.prop, Rule: "reported-links!=established-and-not-lost", Witness: kind,
				Detail: fmt.Sprintf("peer %s: GetPeerLinks reports %s, the event history leaves %s", r, names(got), names(want))}
		}
		if names(byPeer[pid.String()]) != names(want) {
			return &dsim.Violation{Property: w.prop, Rule: "per-peer-table!=model", Witness: "linksByPeerID",
				Detail: fmt.Sprintf("peer %s: per-peer table holds %s, the event history leaves %s", r, names(byPeer[pid.String()]), names(want))}
		}
		// watcher values
		var vals []string
		for _, ml := range w.watch[r].values {
			vals = append(vals, fmt.Sprintf("u%d", ml.GetLinkUUID()))
		}
		sort.Strings(vals)
		var wantU []string
		for _, l := range want {
			wantU = append(wantU, fmt.Sprintf("u%d", l.GetUUID()))
		}
		sort.Strings(wantU)
		if strings.Join(vals, ",") != strings.Join(wantU, ",") {
			kind := "missing-value"
			if len(vals) > len(wantU) {
				kind = "stale-value"
			}
			return &dsim.Violation{Property: w.prop, Rule: "watcher-values!=model", Witness: kind,
				Detail: fmt.Sprintf("EstablishLinkWithPeer watcher for %s holds values [%s], the event history leaves [%s]", r, strings.Join(vals, ","), strings.Join(wantU, ","))}
		}
	}
	nLive := 0
	for _, l := range w.links {
		if w.liveObj[l] && l.Rem != w.tc.P.ID {
			nLive++
		}
	}
	if len(byUUID) != nLive {
		var all []link.Link
		for _, l := range byUUID {
			all = append(all, l)
		}
		return &dsim.Violation{Property: w.prop, Rule: "uuid-table!=model", Witness: "links",
			Detail: fmt.Sprintf("uuid table holds %s, model has %d live links", names(all), nLive)}
	}
	for _, l := range w.gone {
		if !l.IsClosed() {
			return &dsim.Violation{Property: w.prop, Rule: "lost-link-not-closed", Witness: "close-not-called",
				Detail: fmt.Sprintf("link %s was lost/replaced/refused but Close was never called on it", l.Name)}
		}
	}
	s.NoteState(dsim.HashStr(strings.Join(st, ";")))
	s.Count("probe:quiescent-table-check")
	return nil
}

func (w *c06World) Invariant(s *dsim.Sim) *dsim.Violation {
	if w.viol != nil {
		return w.viol
	}
	return w.check(s)
}

func (w *c06World) Done(s *dsim.Sim) bool { return true }

func (w *c06World) Final(s *dsim.Sim, stuck bool) *dsim.Violation {
	if w.viol != nil {
		return w.viol
	}
	if w.busy() > 0 {
		s.Inconclusive = "harness: callbacks still in flight at the end"
		return nil
	}
	s.Count("done:final-check")
	return w.check(s)
}

func (w *c06World) Teardown(s *dsim.Sim) {
	w.net.Close()
	for _, nd := range w.net.Nodes {
		nd.Shutdown()
	}
}
