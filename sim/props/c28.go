package props

import (
	"fmt"
	"sort"
	"strings"
	"time"

	"github.com/aperturerobotics/bifrost/peer"
	pubmessage "github.com/aperturerobotics/bifrost/pubsub/util/pubmessage"

	"verif/sim/dsim"
	"verif/sim/worlds/fsub"
)

// C28: floodsub delivers each message once to every reachable subscriber.
//
// World NODE/floodsub: 3-5 real FloodSub routers joined into a connected mesh (line,
// star, ring or random connected graph from the tape) by simulator-owned streams, in
// arbitrary order; subscriber subsets per channel; publishes from any node. Faults in the
// chaos phase: a connection breaks and is re-established under the SAME link tuple (link
// flap) or under a new one, a router crashes and restarts empty, streams stall (nothing
// delivered for a while), fake-time jumps beyond the 120 s de-duplication window.
//
// Oracle: (1) at any time, a subscription instance is handed one message at most once
// within the de-duplication window; (2) no router ever writes a Publish of message m to
// m's original publisher, nor back to the only peer it had received m from (wire tap on
// every stream, ordered by the global event sequence); (3) after the last fault, once
// everything is quiescent, a fresh message published by each node on each channel is
// handed exactly once to every subscription that is reachable from the publisher through
// live connections whose intermediate routers subscribe to the channel (floodsub forwards
// only to subscribed peers: "every reachable subscriber"). A Go panic inside a router is
// a violation of its own (rule "panic").
type c28World struct {
	s         *dsim.Sim
	fw        *fsub.World
	names     []string
	chans     []string
	edges     map[string]*fsub.Conn // "A-B" -> live conn
	ops       int
	maxOps    int
	n         int
	viol      *dsim.Violation
	pubTime   map[string]time.Duration // data -> fake publish time
	finals    []*c28Final
	finalIdx  int
	settled   int
	idleSince time.Duration
	down      map[string]bool // router crashed, restart pending
	pendingRe map[string]bool // edge has a reconnect action pending
	lateSubs  int
	par       map[string]*fsub.Conn // second, parallel link of an edge (same fate)
	wantEdge  map[string]uint64     // topology: edge -> link id to use on (re)connect (0 = fresh)
}

type c28Final struct {
	from, ch, data string
	expect         map[string]bool // "node/subID"
}

func init() {
	register(&Spec{
		ID: "C28", World: "NODE",
		New:        func() dsim.World { return &c28World{} },
		Cfg:        dsim.Config{MaxChaosSteps: 200, MaxStableSteps: 30000, Horizon: 20 * time.Second},
		Real:       []string{"pubsub/floodsub.FloodSub routers (3-5 instances): AddPeerStream, Execute, subscription propagation, handlePublish, handleValidMessage, de-duplication cache, execPublish", "pubmessage signing/verification", "stream/packet framing"},
		Stub:       []string{"routers are joined directly by simulator-owned streams (the pubsub controller and the transport controller are exercised under C29 instead)", "go-cache janitor goroutine not started"},
		FaultKinds: []string{"fault:link-flap-same-tuple", "fault:link-flap-new-tuple", "fault:node-restart", "fault:clock-jump", "fault:chunking", "fault:parallel-link", "fault:subscription-added-at-run-time"},
	})
}

func (w *c28World) fail(v *dsim.Violation) {
	if w.viol == nil {
		w.viol = v
	}
}

func ek(a, b string) string {
	if a > b {
		a, b = b, a
	}
	return a + "-" + b
}

func (w *c28World) Setup(s *dsim.Sim) {
	w.s = s
	t := s.Tape
	w.fw = fsub.New(s)
	w.edges = map[string]*fsub.Conn{}
	w.pubTime = map[string]time.Duration{}
	w.down = map[string]bool{}
	w.pendingRe = map[string]bool{}
	w.wantEdge = map[string]uint64{}
	n := 3 + t.Draw(3, "nodes")
	w.names = []string{"N1", "N2", "N3", "N4", "N5"}[:n]
	w.chans = []string{"x", "y"}[:1+t.Draw(2, "channels")]
	for _, nm := range w.names {
		nd := w.fw.AddNode(nm)
		for _, c := range w.chans {
			if t.Bool(2, 3, "sub-"+nm+c) {
				nd.Subscribe(c)
			}
		}
	}
	w.fw.OnMsg = func(nd *fsub.FNode, sub *fsub.SubRec, from peer.ID, data []byte) {
		s.Count("done:delivery")
		d := string(data)
		cnt := 0
		var first int
		for _, g := range sub.Got {
			if g.Data == d {
				cnt++
				if cnt == 1 {
					first = g.Step
				}
			}
		}
		_ = first
		if cnt > 1 {
			// duplicates are legitimate only when the window (120 s) has passed since the
			// first hand-over; the harness publishes every payload once, so a second copy can
			// only come from the mesh itself.
			if pt, ok := w.pubTime[d]; ok && s.Now()-pt < 119*time.Second {
				w.fail(&dsim.Violation{Property: "C28", Rule: "delivered-twice-within-window", Witness: "duplicate",
					Detail: fmt.Sprintf("subscription %s/%s#%d was handed %q %d times within %v of its publication", nd.Name, sub.Channel, sub.ID, d, cnt, s.Now()-pt)})
			}
		}
	}
	// topology
	kind := t.Draw(4, "topology")
	var want [][2]int
	switch kind {
	case 0: // line
		for i := 0; i+1 < n; i++ {
			want = append(want, [2]int{i, i + 1})
		}
	case 1: // star
		for i := 1; i < n; i++ {
			want = append(want, [2]int{0, i})
		}
	case 2: // ring
		for i := 0; i < n; i++ {
			want = append(want, [2]int{i, (i + 1) % n})
		}
	default: // random connected: spanning tree + extras
		for i := 1; i < n; i++ {
			want = append(want, [2]int{t.Draw(i, "parent"), i})
		}
		for i := 0; i < n; i++ {
			for j := i + 1; j < n; j++ {
				if t.Bool(1, 4, "extra") {
					want = append(want, [2]int{i, j})
				}
			}
		}
	}
	for _, e := range want {
		a, b := w.names[e[0]], w.names[e[1]]
		if w.edges[ek(a, b)] == nil {
			w.edges[ek(a, b)] = w.fw.Connect(w.fw.Nodes[a], w.fw.Nodes[b], 0)
			w.wantEdge[ek(a, b)] = 0
		}
	}
	// in some runs one pair of routers is joined by two links at once (two transports
	// between the same peers): a second stream pair with its own link id, sharing the fate
	// of the edge
	w.par = map[string]*fsub.Conn{}
	if t.Bool(1, 4, "parallel-link") {
		ks := w.sortedEdges()
		k := ks[t.Draw(len(ks), "parallel-edge")]
		ab := strings.Split(k, "-")
		w.par[k] = w.fw.Connect(w.fw.Nodes[ab[0]], w.fw.Nodes[ab[1]], 0)
		s.Count("fault:parallel-link")
	}
	w.maxOps = 2 + t.Draw(14, "max-ops")
	s.ArmFraction([]int{0, 0, 50, 100}[t.Draw(4, "arm-pct")], []string{"floodsub/", "go:pubsub/floodsub/", "cache/"})
}

// reconnect (re)establishes edge k if it is missing, both routers are up and no explicit
// reconnect action is still pending for it.
func (w *c28World) reconnect(k string) {
	ab := strings.Split(k, "-")
	if w.edges[k] != nil || w.pendingRe[k] || w.down[ab[0]] || w.down[ab[1]] {
		return
	}
	w.edges[k] = w.fw.Connect(w.fw.Nodes[ab[0]], w.fw.Nodes[ab[1]], w.wantEdge[k])
}

func (w *c28World) publish(nd *fsub.FNode, ch string) string {
	w.n++
	data := fmt.Sprintf("m%d@%s", w.n, nd.Name)
	w.pubTime[data] = w.s.Now()
	go func() { _ = nd.Publish(ch, data) }()
	return data
}

func (w *c28World) sortedEdges() []string {
	var ks []string
	for k, c := range w.edges {
		if c != nil {
			ks = append(ks, k)
		}
	}
	sort.Strings(ks)
	return ks
}

func (w *c28World) Actions(s *dsim.Sim, add func(dsim.Action)) {
	w.fw.Actions(add)
	t := s.Tape
	if s.Phase == dsim.PhaseStable {
		// after quiescence: issue the final probes one at a time
		if !w.fw.Idle() || s.ParkedCount() > 0 {
			w.idleSince = 0
			return
		}
		{
			// let subscription announcements and the 100 ms re-evaluation ticks settle: require
			// one second of fake time without any traffic before (and between) the probes
			if w.idleSince == 0 {
				w.idleSince = s.Now() + 1
				return
			}
			if s.Now()-w.idleSince < time.Second {
				return
			}
			if w.finals == nil {
				w.planFinals()
			}
			if w.finalIdx < len(w.finals) {
				f := w.finals[w.finalIdx]
				add(dsim.Action{Name: "3op:final-publish", Fire: func() {
					w.finalIdx++
					w.idleSince = 0
					w.pubTime[f.data] = s.Now()
					nd := w.fw.Nodes[f.from]
					go func() { _ = nd.Publish(f.ch, f.data) }()
				}})
			}
		}
		return
	}
	if w.ops >= w.maxOps {
		return
	}
	for _, nm := range w.names {
		nd := w.fw.Nodes[nm]
		if w.down[nm] {
			continue
		}
		for _, ch := range w.chans {
			ch := ch
			add(dsim.Action{Name: "3op:publish:" + nm + "/" + ch, Weight: 3, Fire: func() { w.ops++; w.publish(nd, ch) }})
			// a node that does not subscribe to ch yet starts to (links come and go around it)
			has := false
			for _, sr := range nd.Subs {
				if sr.Channel == ch {
					has = true
				}
			}
			if !has && w.lateSubs < 3 {
				add(dsim.Action{Name: "3op:subscribe:" + nm + "/" + ch, Weight: 1, Fire: func() {
					w.ops++
					w.lateSubs++
					s.Count("fault:subscription-added-at-run-time")
					go func() { nd.Subscribe(ch) }()
				}})
			}
		}
	}
	for _, k := range w.sortedEdges() {
		k := k
		c := w.edges[k]
		add(dsim.Action{Name: "5flt:flap:" + k, Weight: 2, Fault: true, Fire: func() {
			w.ops++
			c.Break()
			w.breakPar(k)
			same := t.Bool(1, 2, "same-tuple")
			id := uint64(0)
			if same {
				id = c.LinkID
				s.Count("fault:link-flap-same-tuple")
			} else {
				s.Count("fault:link-flap-new-tuple")
			}
			w.edges[k] = nil
			w.wantEdge[k] = id
			w.pendingRe[k] = true
			w.deferQuiet("3op:reconnect:"+k, func() {
				w.pendingRe[k] = false
				w.reconnect(k)
			})
		}})
	}
	for _, nm := range w.names {
		nm := nm
		if w.down[nm] {
			continue
		}
		if s.ParkedCount() > 0 {
			continue // (restarting calls into the router from the driver: see deferQuiet)
		}
		add(dsim.Action{Name: "5flt:restart:" + nm, Weight: 1, Fault: true, Fire: func() {
			w.ops++
			s.Count("fault:node-restart")
			nd := w.fw.Nodes[nm]
			subs := map[string]bool{}
			for _, sr := range nd.Subs {
				subs[sr.Channel] = true
			}
			nd.Crash()
			w.down[nm] = true
			for k, c := range w.edges {
				if c != nil && (c.A.Node == nd || c.B.Node == nd) {
					c.Break()
					w.breakPar(k)
					w.edges[k] = nil
					w.wantEdge[k] = 0 // the restarted router gets fresh link tuples
				}
			}
			w.deferQuiet("3op:restarted:"+nm, func() {
				nd.Restart()
				w.down[nm] = false
				for _, ch := range w.chans {
					if subs[ch] {
						nd.Subscribe(ch)
					}
				}
				var ks []string
				for k := range w.wantEdge {
					ks = append(ks, k)
				}
				sort.Strings(ks)
				for _, k := range ks {
					w.reconnect(k)
				}
			})
		}})
	}
}

// deferQuiet registers a one-shot harness action that calls into routers (AddPeerStream,
// AddSubscription, Close take the router's lock). The driver must never wait for a lock
// that a parked task may hold, so the action only takes effect at a step where nothing is
// parked; otherwise it re-registers itself.
func (w *c28World) deferQuiet(name string, f func()) {
	w.fw.Net.Defer(name, func() {
		if w.s.ParkedCount() > 0 {
			w.deferQuiet(name, f)
			return
		}
		f()
	})
}

func (w *c28World) breakPar(k string) {
	if c := w.par[k]; c != nil {
		c.Break()
		delete(w.par, k)
	}
}

// planFinals computes the final probes and their expected receivers on the live topology.
func (w *c28World) planFinals() {
	w.finals = []*c28Final{}
	adj := map[string][]string{}
	for k, c := range w.edges {
		if c == nil || c.Dead {
			continue
		}
		ab := strings.Split(k, "-")
		adj[ab[0]] = append(adj[ab[0]], ab[1])
		adj[ab[1]] = append(adj[ab[1]], ab[0])
	}
	subscribed := func(n, ch string) bool {
		for _, sr := range w.fw.Nodes[n].Subs {
			if sr.Channel == ch && !sr.Released {
				return true
			}
		}
		return false
	}
	for _, from := range w.names {
		for _, ch := range w.chans {
			w.n++
			f := &c28Final{from: from, ch: ch, data: fmt.Sprintf("final%d@%s", w.n, from), expect: map[string]bool{}}
			// BFS: the publisher forwards to subscribed neighbours; a node forwards only if
			// it subscribes itself.
			seen := map[string]bool{from: true}
			queue := []string{from}
			for len(queue) > 0 {
				x := queue[0]
				queue = queue[1:]
				if x != from && !subscribed(x, ch) {
					continue
				}
				for _, y := range adj[x] {
					if !seen[y] && subscribed(y, ch) {
						seen[y] = true
						queue = append(queue, y)
					}
				}
			}
			for nme := range seen {
				for _, sr := range w.fw.Nodes[nme].Subs {
					if sr.Channel == ch && !sr.Released && (nme != from || true) {
						if nme == from || seen[nme] {
							f.expect[fmt.Sprintf("%s#%d", nme, sr.ID)] = true
						}
					}
				}
			}
			w.finals = append(w.finals, f)
		}
	}
}

// wireCheck is rule (2), evaluated over the recorded byte streams.
func (w *c28World) wireCheck() *dsim.Violation {
	type rx struct {
		from string
		seq  int
	}
	recv := map[string]map[string][]rx{} // node -> msgKey -> receipts
	type tx struct {
		from, to, key, origin string
		seq                   int
	}
	var sends []tx
	for _, c := range w.fw.Conns {
		for _, dir := range []struct{ src, dst *fsub.End }{{c.A, c.B}, {c.B, c.A}} {
			if dir.src.Node == nil || dir.dst.Node == nil {
				continue
			}
			bd := dir.src.Strm.End().W
			pkts, ends := fsub.ParseFrames(bd.All)
			for i, p := range pkts {
				if len(p.GetPublish()) == 0 {
					continue
				}
				// write time: first WriteLog entry covering the frame end; delivery time likewise
				wseq, dseq := 0, 0
				for _, e := range bd.WriteLog {
					if e[0] >= ends[i] {
						wseq = e[1]
						break
					}
				}
				for _, e := range bd.DelivLog {
					if e[0] >= ends[i] {
						dseq = e[1]
						break
					}
				}
				for _, m := range p.GetPublish() {
					inner := &pubmessage.PubMessageInner{}
					_ = inner.UnmarshalVT(m.GetData())
					k := string(inner.GetData())
					origin := ""
					if id, err := peer.IDB58Decode(m.GetFromPeerId()); err == nil {
						origin = w.fw.Net.Names[id.String()]
					}
					sends = append(sends, tx{from: dir.src.Node.Name, to: dir.dst.Node.Name, key: k, origin: origin, seq: wseq})
					if dseq > 0 {
						if recv[dir.dst.Node.Name] == nil {
							recv[dir.dst.Node.Name] = map[string][]rx{}
						}
						recv[dir.dst.Node.Name][k] = append(recv[dir.dst.Node.Name][k], rx{dir.src.Node.Name, dseq})
					}
				}
			}
		}
	}
	for _, t := range sends {
		if t.to == t.origin {
			return &dsim.Violation{Property: "C28", Rule: "sent-back-to-publisher", Witness: "to==origin",
				Detail: fmt.Sprintf("%s wrote a Publish of %q to %s, its original publisher", t.from, t.key, t.to)}
		}
		// receipts of this message at the sender before it wrote
		srcs := map[string]bool{}
		for _, r := range recv[t.from][t.key] {
			if r.seq < t.seq {
				srcs[r.from] = true
			}
		}
		if len(srcs) == 1 && srcs[t.to] {
			return &dsim.Violation{Property: "C28", Rule: "sent-back-to-previous-hop", Witness: "only-source",
				Detail: fmt.Sprintf("%s wrote a Publish of %q to %s, the only peer it had received it from", t.from, t.key, t.to)}
		}
	}
	return nil
}

func (w *c28World) Invariant(s *dsim.Sim) *dsim.Violation { return w.viol }

func (w *c28World) Done(s *dsim.Sim) bool {
	return w.finals != nil && w.finalIdx == len(w.finals)
}

func (w *c28World) Final(s *dsim.Sim, stuck bool) *dsim.Violation {
	if w.viol != nil {
		return w.viol
	}
	if v := w.wireCheck(); v != nil {
		return v
	}
	if w.finals == nil || w.finalIdx < len(w.finals) {
		s.Inconclusive = "harness: final probes not issued"
		return nil
	}
	for _, f := range w.finals {
		for _, nm := range w.names {
			for _, sr := range w.fw.Nodes[nm].Subs {
				if sr.Channel != f.ch || sr.Released {
					continue
				}
				cnt := 0
				for _, g := range sr.Got {
					if g.Data == f.data {
						cnt++
					}
				}
				id := fmt.Sprintf("%s#%d", nm, sr.ID)
				if f.expect[id] && cnt != 1 {
					kind := "never-delivered"
					if cnt > 1 {
						kind = "delivered-more-than-once"
					}
					return &dsim.Violation{Property: "C28", Rule: "reachable-subscriber-not-served-exactly-once", Witness: kind,
						Detail: fmt.Sprintf("after stabilisation %s published %q on %s; subscription %s is reachable through subscribed routers (edges %v) but was handed it %d times", f.from, f.data, f.ch, id, w.sortedEdges(), cnt)}
				}
				if !f.expect[id] && cnt > 0 {
					// the reachability model of the harness disagrees with the mesh: not a verdict
					s.Inconclusive = fmt.Sprintf("harness: %s served %q although the model says unreachable", id, f.data)
				}
			}
		}
		s.Count("done:final-probe")
	}
	return nil
}

func (w *c28World) Teardown(s *dsim.Sim) { w.fw.Close() }
