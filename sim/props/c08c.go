package props

import (
	"bytes"
	"context"
	"encoding/binary"
	"errors"
	"fmt"

	stream_packet "github.com/aperturerobotics/bifrost/stream/packet"
	"github.com/aperturerobotics/bifrost/util/rwc"
	"github.com/aperturerobotics/starpc/srpc"

	"verif/sim/dsim"
)

// c08Conc is the concurrent-writers scenario of C08: 2-3 writer tasks per side call
// Session.SendMsg concurrently on one stream_packet.Session whose underlying writer is
// flow-controlled (every Write goes out in two halves with a scheduling point in between,
// the second half being taken from the caller's buffer at that later time), delivery is
// chunked, one reader per side.
//
// Oracle: every message read is byte-identical to a message some writer sent, each
// writer's messages arrive in that writer's order, each exactly once; at quiescence all
// of them have arrived.
type c08Conc struct {
	s       *dsim.Sim
	pc      bool // PacketConn writers (WriteTo) instead of Session writers (SendMsg)
	pcs     [2]*rwc.PacketConn
	cancel  context.CancelFunc
	sess    [2]*stream_packet.Session
	ends    [2]*dsim.ByteEnd
	exp     [2]map[int][][]byte // direction -> writer -> expected queue
	busy    [2]map[int]bool
	got     [2]int
	sent    [2]int
	ops     int
	maxOps  int
	nw      int
	viol    *dsim.Violation
	seq     int
	tearing bool
}

func (w *c08Conc) wit() string {
	if w.pc {
		return "pc-concurrent"
	}
	return "sess-concurrent"
}

func (w *c08Conc) fail(v *dsim.Violation) {
	if w.viol == nil {
		w.viol = v
	}
}

func (w *c08Conc) Setup(s *dsim.Sim) {
	w.s = s
	t := s.Tape
	a, b := dsim.NewBytePair("bs")
	w.ends = [2]*dsim.ByteEnd{a, b}
	w.nw = 2 + t.Draw(2, "writers")
	w.maxOps = 4 + t.Draw(16, "max-ops")
	w.pc = t.Bool(1, 3, "packet-conn-writers")
	for i := 0; i < 2; i++ {
		w.exp[i] = map[int][][]byte{}
		w.busy[i] = map[int]bool{}
		i := i
		e := w.ends[i]
		if w.pc {
			// PacketConn.WriteTo takes no lock of its own: it relies on one underlying Write
			// per frame being atomic (as a socket's is). Writes stay atomic here; the
			// scheduling point sits between two Write calls.
			e.W.PreWrite = func() {
				s.Count("fault:concurrent-write-calls")
				s.Yield("harness/pre-write", e.W.Name)
			}
		} else {
			e.W.SlowWrite = func() {
				s.Count("fault:flow-controlled-write")
				s.Yield("harness/slow-write", e.W.Name)
			}
		}
	}
	if w.pc {
		var ctx context.Context
		ctx, w.cancel = context.WithCancel(context.Background())
		w.pcs[0] = rwc.NewPacketConn(ctx, a, c08Addr("a"), c08Addr("b"), 4096, 10)
		w.pcs[1] = rwc.NewPacketConn(ctx, b, c08Addr("b"), c08Addr("a"), 4096, 10)
	} else {
		w.sess[0] = stream_packet.NewSession(a, 4096)
		w.sess[1] = stream_packet.NewSession(b, 4096)
	}
	s.ArmFraction([]int{100, 100, 60}[t.Draw(3, "arm-pct")], []string{"harness/slow-write", "harness/pre-write"})
	for i := 0; i < 2; i++ {
		w.startReader(i)
	}
}

// startReader: end i reads what end 1-i wrote (direction 1-i).
func (w *c08Conc) startReader(i int) {
	dir := 1 - i
	s := w.s
	go func() {
		for {
			var data []byte
			if w.pc {
				buf := make([]byte, 5000)
				n, _, err := w.pcs[i].ReadFrom(buf)
				if err != nil {
					if !errors.Is(err, context.Canceled) && w.viol == nil && !w.tearing {
						w.fail(&dsim.Violation{Property: "C08", Rule: "reader-failed-on-valid-stream", Witness: "pc-concurrent", Detail: fmt.Sprintf("dir %d: ReadFrom failed although only whole frames were written: %v", dir, err)})
					}
					return
				}
				data = buf[:n]
			} else {
				msg := srpc.NewRawMessage(nil, true)
				if err := w.sess[i].RecvMsg(msg); err != nil {
					return
				}
				data = msg.GetData()
			}
			w.got[dir]++
			s.Count("done:packet")
			if len(data) < 6 {
				w.fail(&dsim.Violation{Property: "C08", Rule: "packet-mismatch", Witness: "sess-concurrent/short", Detail: fmt.Sprintf("dir %d: read %d bytes %x", dir, len(data), data)})
				return
			}
			k := int(data[0])
			q := w.exp[dir][k]
			if len(q) == 0 {
				w.fail(&dsim.Violation{Property: "C08", Rule: "packet-from-nowhere", Witness: w.wit(),
					Detail: fmt.Sprintf("dir %d: read a message attributed to writer %d (index %d, %d bytes) but that writer has nothing outstanding", dir, k, binary.LittleEndian.Uint32(data[1:5]), len(data))})
				return
			}
			if !bytes.Equal(q[0], data) {
				w.fail(&dsim.Violation{Property: "C08", Rule: "packet-mismatch", Witness: w.wit() + "/" + mismatchKind(data, q[0]),
					Detail: fmt.Sprintf("dir %d: next message of writer %d should be %d bytes %x…, read %d bytes %x… (concurrent SendMsg calls over a flow-controlled stream)", dir, k, len(q[0]), head(q[0]), len(data), head(data))})
				return
			}
			w.exp[dir][k] = q[1:]
		}
	}()
}

func (w *c08Conc) Actions(s *dsim.Sim, add func(dsim.Action)) {
	for _, e := range w.ends {
		if a, ok := e.W.DeliverAction(s); ok {
			add(a)
		}
	}
	if s.Phase == dsim.PhaseStable || w.ops >= w.maxOps {
		return
	}
	for dir := 0; dir < 2; dir++ {
		for k := 0; k < w.nw; k++ {
			if w.busy[dir][k] {
				continue
			}
			dir, k := dir, k
			add(dsim.Action{Name: fmt.Sprintf("3op:send:%d.w%d", dir, k), Weight: 6, Fire: func() {
				w.ops++
				w.seq++
				n := 6 + s.Tape.Draw(40, "size")
				p := make([]byte, n)
				p[0] = byte(k)
				binary.LittleEndian.PutUint32(p[1:5], uint32(w.seq))
				for j := 5; j < n; j++ {
					p[j] = byte(w.seq*31 + j)
				}
				w.exp[dir][k] = append(w.exp[dir][k], p)
				w.sent[dir]++
				w.busy[dir][k] = true
				go func() {
					var err error
					if w.pc {
						_, err = w.pcs[dir].WriteTo(p, c08Addr([]string{"b", "a"}[dir]))
					} else {
						err = w.sess[dir].SendMsg(srpc.NewRawMessage(p, false))
					}
					w.busy[dir][k] = false
					if err != nil {
						w.fail(&dsim.Violation{Property: "C08", Rule: "send-failed", Witness: w.wit(), Detail: err.Error()})
					}
				}()
			}})
		}
	}
}

func (w *c08Conc) Invariant(s *dsim.Sim) *dsim.Violation { return w.viol }

func (w *c08Conc) Done(s *dsim.Sim) bool {
	for dir := 0; dir < 2; dir++ {
		for _, b := range w.busy[dir] {
			if b {
				return false
			}
		}
	}
	return true
}

func (w *c08Conc) Final(s *dsim.Sim, stuck bool) *dsim.Violation {
	if w.viol != nil {
		return w.viol
	}
	for dir := 0; dir < 2; dir++ {
		if w.got[dir] != w.sent[dir] {
			return &dsim.Violation{Property: "C08", Rule: "packets-lost", Witness: w.wit(),
				Detail: fmt.Sprintf("dir %d: %d messages sent by concurrent writers, %d read at quiescence", dir, w.sent[dir], w.got[dir])}
		}
	}
	return nil
}

func (w *c08Conc) Teardown(s *dsim.Sim) {
	w.tearing = true
	if w.cancel != nil {
		w.cancel()
	}
	for _, e := range w.ends {
		e.W.Reset(dsim.ErrByteReset)
		e.R.Reset(dsim.ErrByteReset)
	}
}

// c08Switch picks the scenario per run.
type c08Switch struct{ inner dsim.World }

func (w *c08Switch) Setup(s *dsim.Sim) {
	if s.Tape.Bool(1, 4, "concurrent-writers") {
		w.inner = &c08Conc{}
	} else {
		w.inner = &c08World{}
	}
	w.inner.Setup(s)
}
func (w *c08Switch) Actions(s *dsim.Sim, add func(dsim.Action)) { w.inner.Actions(s, add) }
func (w *c08Switch) Invariant(s *dsim.Sim) *dsim.Violation      { return w.inner.Invariant(s) }
func (w *c08Switch) Done(s *dsim.Sim) bool                      { return w.inner.Done(s) }
func (w *c08Switch) Final(s *dsim.Sim, stuck bool) *dsim.Violation {
	return w.inner.Final(s, stuck)
}
func (w *c08Switch) Teardown(s *dsim.Sim) { w.inner.Teardown(s) }
