package props

import (
	"fmt"

	"github.com/aperturerobotics/bifrost/hash"
	"github.com/aperturerobotics/bifrost/peer"
	signaling "github.com/aperturerobotics/bifrost/signaling/rpc"

	"verif/sim/dsim"
	"verif/sim/worlds/sig"
)

// C20: the relay server forwards only authentic messages to the session partner.
//
// World SIG: real relay Server; three identities A, B, M on scripted raw Session
// streams. Any stream may behave adversarially. Submissions are drawn from: honest
// (signed by the stream owner with the session context, tagged with the announced
// epoch), foreign-signed (valid message of another identity replayed on this stream),
// tampered (payload / signature / sender field altered after signing), wrong context
// (owner's key, pubsub-like context), unsigned, stale epoch (announced-1), future epoch
// (far ahead), unsolicited ack/clear, request before Init, Init naming self / garbage.
//
// Ground truth never uses bifrost's verifier: the harness creates every honest signed
// message itself; "authentic for stream X" = byte-equal to a message the harness signed
// with X's owner key under the session context and submitted on a stream of that owner
// toward the receiving peer.
//
// Oracle, evaluated on every RecvMsg the relay writes to any call Y (owner P, partner Q):
//   - the bytes are an authentic submission of owner Q toward P (else "forwarded-unauthentic");
//   - Y's last announced epoch equals the epoch tag of that submission (old epochs are not
//     forwarded); a future-epoch submission is never forwarded;
//   - at quiescence, a call that submitted a future-epoch request has been ended by the
//     relay with an error.
type c20World struct {
	rw        *sig.RawWorld
	names     []string
	subs      map[string][]*c20Sub // by wire bytes of the SessionMsg
	ops       int
	maxOps    int
	n         int
	viol      *dsim.Violation
	future    []*sig.RawCall
	resets    int
	maxResets int
	// last honest message submitted per call (for the same-signature-new-data kind)
	lastHonest map[*sig.RawCall]*signaling.SessionMsg
}

type c20Sub struct {
	owner, dst string
	kind       string
	epoch      uint64
	authentic  bool
}

func init() {
	register(&Spec{
		ID: "C20", World: "SIG",
		New:        func() dsim.World { return &c20World{} },
		Cfg:        defaultCfg,
		Real:       []string{"signaling/rpc/server.Server.Session (init validation, signature + sender check, epoch check, forwarding)", "signaling.SessionMsg.ExtractAndVerify / peer.SignedMsg.ExtractAndVerify"},
		Stub:       []string{"scripted raw Session streams (honest and adversarial)", "srpc transport replaced by simulator-owned message streams", "stream identity callback"},
		FaultKinds: []string{"fault:foreign-signed", "fault:tampered", "fault:wrong-context", "fault:unsigned", "fault:stale-epoch", "fault:future-epoch", "fault:unsolicited-ack", "fault:pre-init", "fault:bad-init", "fault:stream-reset", "fault:clock-jump"},
	})
}

func (w *c20World) Setup(s *dsim.Sim) {
	t := s.Tape
	w.names = []string{"A", "B", "M"}
	w.rw = sig.NewRawWorld(s, w.names)
	arm := []int{0, 40, 100}[t.Draw(3, "arm-pct")]
	s.ArmFraction(arm, []string{"sigsrv/"})
	w.maxOps = 8 + t.Draw(32, "max-ops")
	w.subs = map[string][]*c20Sub{}
	w.maxResets = t.Draw(3, "max-resets")
	w.rw.OnRecv = func(c *sig.RawCall, payload string, m *signaling.SessionMsg) {
		raw, _ := m.MarshalVT()
		s.Count("done:relay-delivery")
		var match *c20Sub
		var any *c20Sub
		for _, sb := range w.subs[string(raw)] {
			any = sb
			if sb.owner == c.To.Name && sb.dst == c.P.Name {
				match = sb
				if sb.authentic {
					break
				}
			}
		}
		switch {
		case any == nil:
			w.fail(&dsim.Violation{Property: "C20", Rule: "forwarded-unknown-bytes", Witness: "never-submitted",
				Detail: fmt.Sprintf("call %s received a SessionMsg (%q) that was never submitted", c.St.Name, payload)})
		case match == nil:
			w.fail(&dsim.Violation{Property: "C20", Rule: "forwarded-to-wrong-peer", Witness: "not-the-session-partner",
				Detail: fmt.Sprintf("call %s (%s<-%s) received %q which was submitted %s->%s", c.St.Name, c.P.Name, c.To.Name, payload, any.owner, any.dst)})
		case !match.authentic:
			w.fail(&dsim.Violation{Property: "C20", Rule: "forwarded-unauthentic", Witness: match.kind,
				Detail: fmt.Sprintf("call %s received %q, submitted on a stream of %s as kind %q: not signed by that stream's authenticated identity over these bytes", c.St.Name, payload, match.owner, match.kind)})
		case match.kind == "future-epoch":
			w.fail(&dsim.Violation{Property: "C20", Rule: "forwarded-future-epoch", Witness: "future-epoch",
				Detail: fmt.Sprintf("call %s received %q which was submitted under epoch %d", c.St.Name, payload, match.epoch)})
		case c.Ann != "open" || c.AnnE != match.epoch:
			w.fail(&dsim.Violation{Property: "C20", Rule: "forwarded-across-epochs", Witness: match.kind,
				Detail: fmt.Sprintf("call %s (last announcement %s/%d) received %q submitted under epoch %d", c.St.Name, c.Ann, c.AnnE, payload, match.epoch)})
		}
	}
}

func (w *c20World) fail(v *dsim.Violation) {
	if w.viol == nil {
		w.viol = v
	}
}

func (w *c20World) live(p, q string) []*sig.RawCall {
	var out []*sig.RawCall
	for _, c := range w.rw.Calls {
		if c.P.Name == p && c.To.Name == q && c.Live() {
			out = append(out, c)
		}
	}
	return out
}

// submit builds and sends one SendMsg request of the given kind on call c.
func (w *c20World) submit(s *dsim.Sim, c *sig.RawCall, kind string) {
	w.n++
	owner := c.P
	payload := fmt.Sprintf("%s-%d-%s", kind, w.n, owner.Name)
	epoch := c.AnnE
	signer := owner
	authentic := true
	ctxOK := true
	switch kind {
	case "foreign-signed":
		// a valid message of another identity, replayed on this stream
		for _, n := range w.names {
			if n != owner.Name && n != c.To.Name {
				signer = w.rw.Parties[n]
			}
		}
		authentic = false
	case "partner-signed":
		// a message validly signed by the PARTNER of this stream (e.g. one this peer received
		// from it earlier), submitted by the stream owner as its own
		signer = c.To
		authentic = false
	case "wrong-context":
		ctxOK = false
		authentic = false
	case "stale-epoch":
		if epoch == 0 {
			return
		}
		epoch--
	case "future-epoch":
		epoch += 1000
		w.future = append(w.future, c)
	}
	var sm *signaling.SessionMsg
	var err error
	if ctxOK {
		sm, err = signaling.NewSessionMsg(signer.Priv, hash.HashType_HashType_BLAKE3, []byte(payload), uint64(w.n))
	} else {
		var inner *peer.SignedMsg
		inner, err = peer.NewSignedMsg("bifrost/pubsub some other context", signer.Priv, hash.HashType_HashType_BLAKE3, []byte(payload))
		sm = &signaling.SessionMsg{SignedMsg: inner, Seqno: uint64(w.n)}
	}
	if err != nil {
		panic(err)
	}
	switch kind {
	case "same-signature-new-data":
		// the previous honest message of this stream with its signature and sender kept and
		// the payload replaced (a relay that remembers "already verified" by an id that does
		// not cover the payload lets it through)
		prev := w.lastHonest[c]
		if prev == nil {
			return
		}
		cl := prev.CloneVT()
		cl.Seqno = uint64(w.n)
		cl.SignedMsg.Data = []byte(payload)
		sm = cl
		authentic = false
	case "tampered-body":
		sm.SignedMsg.Data = append([]byte("X"), sm.SignedMsg.Data...)
		payload = string(sm.SignedMsg.Data)
		authentic = false
	case "tampered-sig":
		sd := sm.SignedMsg.Signature.SigData
		sd[len(sd)/2] ^= 0x40
		authentic = false
	case "tampered-sender":
		// owner's valid signature, sender field re-attributed to the partner
		sm.SignedMsg.FromPeerId = c.To.IDs
		authentic = false
	case "claims-owner":
		// signed by a third key but the sender field claims the stream owner
		for _, n := range w.names {
			if n != owner.Name {
				signer = w.rw.Parties[n]
			}
		}
		sm2, _ := signaling.NewSessionMsg(signer.Priv, hash.HashType_HashType_BLAKE3, []byte(payload), uint64(w.n))
		sm2.SignedMsg.FromPeerId = owner.IDs
		sm = sm2
		authentic = false
	case "unsigned":
		sm.SignedMsg.Signature = nil
		authentic = false
	case "embedded-pubkey":
		// sender field = the stream owner, signature made by a third key whose public key is
		// embedded in the signature object
		for _, n := range w.names {
			if n != owner.Name {
				signer = w.rw.Parties[n]
			}
		}
		sigObj, _ := peer.NewSignature("bifrost/signaling/rpc session msg 2024-06-05T02:45:07.208906Z", signer.Priv, hash.HashType_HashType_BLAKE3, []byte(payload), true)
		sm = &signaling.SessionMsg{Seqno: uint64(w.n), SignedMsg: &peer.SignedMsg{FromPeerId: owner.IDs, Data: []byte(payload), Signature: sigObj}}
		authentic = false
	}
	if kind == "honest" {
		if w.lastHonest == nil {
			w.lastHonest = map[*sig.RawCall]*signaling.SessionMsg{}
		}
		w.lastHonest[c] = sm
	}
	if kind != "honest" {
		k := kind
		if k == "same-signature-new-data" {
			k = "tampered"
		}
		if len(k) > 8 && k[:8] == "tampered" {
			k = "tampered"
		}
		if k == "claims-owner" || k == "embedded-pubkey" || k == "partner-signed" {
			k = "foreign-signed"
		}
		s.Count("fault:" + k)
	}
	raw, _ := sm.MarshalVT()
	w.subs[string(raw)] = append(w.subs[string(raw)], &c20Sub{owner: owner.Name, dst: c.To.Name, kind: kind, epoch: epoch, authentic: authentic})
	w.rw.Msgs[payload] = &sig.RawMsg{From: owner.Name, To: c.To.Name, Payload: payload, Epoch: epoch, Msg: sm}
	_ = c.Cli.Send(&signaling.SessionRequest{SessionSeqno: epoch, Body: &signaling.SessionRequest_SendMsg{SendMsg: sm}})
	s.Logf("submit %s kind=%s epoch=%d %q", c.St.Name, kind, epoch, payload)
	if kind == "honest" && s.Tape.Bool(1, 8, "follow-with-clone") {
		// the very next request on this stream re-uses the signature just verified
		w.submit(s, c, "same-signature-new-data")
	}
}

var c20Kinds = []string{"honest", "honest", "honest", "honest", "honest", "honest", "honest", "honest", "honest", "honest", "honest", "honest", "honest", "honest", "foreign-signed", "claims-owner", "embedded-pubkey", "tampered-body", "tampered-sig", "tampered-sender", "wrong-context", "unsigned", "stale-epoch", "future-epoch", "same-signature-new-data", "partner-signed"}

func (w *c20World) Actions(s *dsim.Sim, add func(dsim.Action)) {
	w.rw.Net.DeliveryActions(add)
	if s.Phase == dsim.PhaseStable || w.ops >= w.maxOps {
		return
	}
	for _, p := range w.names {
		for _, q := range w.names {
			if p == q {
				continue
			}
			p, q := p, q
			lv := w.live(p, q)
			main := p != "M" && q != "M"
			if len(lv) < 2 {
				wt := 1
				if main && len(lv) == 0 {
					wt = 12
				}
				add(dsim.Action{Name: "3op:attach:" + p + ">" + q, Weight: wt, Fire: func() { w.ops++; w.rw.Attach(p, q) }})
			}
			for _, c := range lv {
				c := c
				if c.Ann == "open" {
					add(dsim.Action{Name: "3op:submit:" + c.St.Name, Weight: 10, Fire: func() {
						w.ops++
						w.submit(s, c, c20Kinds[s.Tape.Draw(len(c20Kinds), "kind")])
					}})
					if c.Unacked != nil {
						add(dsim.Action{Name: "3op:ack:" + c.St.Name, Weight: 3, Fire: func() { w.ops++; c.Ack(c.AnnE, c.Unacked.Seq); c.Unacked = nil }})
					}
					add(dsim.Action{Name: "3op:badack:" + c.St.Name, Weight: 1, Fire: func() {
						w.ops++
						s.Count("fault:unsolicited-ack")
						if s.Tape.Bool(1, 2, "ack-or-clear") {
							c.Ack(c.AnnE, uint64(1+s.Tape.Draw(5, "seq")))
						} else {
							c.Clear(c.AnnE, uint64(1+s.Tape.Draw(5, "seq")))
						}
					}})
				}
				add(dsim.Action{Name: "3op:close:" + c.St.Name, Weight: 1, Fire: func() { w.ops++; c.Close() }})
			}
		}
	}
	add(dsim.Action{Name: "3op:badinit", Weight: 1, Fire: func() {
		w.ops++
		p := w.names[s.Tape.Draw(len(w.names), "badinit-party")]
		P := w.rw.Parties[p]
		cli := w.rw.Net.RawSession(w.rw.Ctx(), P)
		switch s.Tape.Draw(4, "badinit") {
		case 0: // request before Init
			s.Count("fault:pre-init")
			sm, _ := signaling.NewSessionMsg(P.Priv, hash.HashType_HashType_BLAKE3, []byte("pre-init"), 1)
			raw, _ := sm.MarshalVT()
			w.subs[string(raw)] = append(w.subs[string(raw)], &c20Sub{owner: p, dst: "?", kind: "pre-init"})
			_ = cli.Send(&signaling.SessionRequest{Body: &signaling.SessionRequest_SendMsg{SendMsg: sm}})
		case 1:
			s.Count("fault:bad-init")
			_ = cli.Send(&signaling.SessionRequest{Body: &signaling.SessionRequest_Init{Init: &signaling.SessionInit{PeerId: P.IDs}}})
		case 2:
			s.Count("fault:bad-init")
			_ = cli.Send(&signaling.SessionRequest{Body: &signaling.SessionRequest_Init{Init: &signaling.SessionInit{PeerId: "not-a-peer-id"}}})
		case 3:
			s.Count("fault:bad-init")
			_ = cli.Send(&signaling.SessionRequest{SessionSeqno: 3, Body: &signaling.SessionRequest_Init{Init: &signaling.SessionInit{PeerId: w.rw.Parties["A"].IDs}}})
		}
	}})
	if w.resets < w.maxResets {
		w.rw.Net.ResetActions(func(a dsim.Action) {
			f := a.Fire
			a.Fire = func() { w.resets++; f() }
			add(a)
		}, 1, nil)
	}
}

func (w *c20World) quiescent(s *dsim.Sim) *dsim.Violation {
	if !w.rw.Idle() || s.ParkedCount() > 0 {
		return nil
	}
	for _, c := range w.future {
		if c.St.ServerRunning() {
			return &dsim.Violation{Property: "C20", Rule: "future-epoch-not-rejected", Witness: "call-still-running",
				Detail: fmt.Sprintf("call %s submitted a request for an epoch far ahead of the relay's and is still served at quiescence", c.St.Name)}
		}
	}
	return nil
}

func (w *c20World) Invariant(s *dsim.Sim) *dsim.Violation {
	if w.viol != nil {
		return w.viol
	}
	return w.quiescent(s)
}

func (w *c20World) Done(s *dsim.Sim) bool { return true }

func (w *c20World) Final(s *dsim.Sim, stuck bool) *dsim.Violation {
	if w.viol != nil {
		return w.viol
	}
	return w.quiescent(s)
}

func (w *c20World) Teardown(s *dsim.Sim) { w.rw.Teardown() }
