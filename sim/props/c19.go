package props

import (
	"bytes"
	"context"
	"fmt"
	"github.com/aperturerobotics/bifrost/pubsub/util/pubmessage"

	"github.com/aperturerobotics/bifrost/hash"
	"github.com/aperturerobotics/bifrost/peer"
	signaling "github.com/aperturerobotics/bifrost/signaling/rpc"
	"github.com/aperturerobotics/util/backoff"

	"verif/sim/dsim"
	"verif/sim/worlds/sig"
)

// C19: the signaling relay cannot forge or alter messages.
//
// World SIG with a *hostile relay*: the real signaling Client of party B (and its
// application Recv loop toward peer A) talks to a scripted relay that speaks the server
// side of Session. The relay holds honest material (messages the harness signed with
// A's key under the session context, addressed to B) and at every step may deliver one
// honestly, replay one, or inject: bit-flipped / truncated / field-altered variants
// (wire level), a message signed by a third key M but claiming A, a genuine message of
// M inside A's session (re-attribution), A's payload signed by A under another context,
// an unsigned message, an empty body; and unsolicited Opened/Closed/Ack/Clear.
//
// Oracle: every message the application's Recv returns for the session with A is
// byte-equal to a member of A's honest pool for B. (Replays of honest messages are not
// flagged: the property does not promise freshness.)
type c19World struct {
	cw      *sig.ClientWorld
	cur     *sig.Stream     // B's current session stream toward A
	pool    [][]byte        // honest SessionMsg bytes A->B
	poolTxt map[string]bool // payloads A signed for B under the session context
	inj     []c19Inj
	n       int
	ops     int
	maxOps  int
	viol    *dsim.Violation
	epoch   uint64
	opened  bool
	started bool
}

func init() {
	register(&Spec{
		ID: "C19", World: "SIG",
		New:        func() dsim.World { return &c19World{} },
		Cfg:        defaultCfg,
		Real:       []string{"signaling/rpc/client.Client (session routine: handleRecv signature + sender check, handleOpen/Close/Ack/Clear, Recv, retry with backoff)", "signaling.SessionMsg.ExtractAndVerify / peer.SignedMsg"},
		Stub:       []string{"the relay is a scripted adversary (no real Server in this scenario)", "srpc transport replaced by simulator-owned message streams", "util/broadcast lock instrumented"},
		FaultKinds: []string{"fault:replay", "fault:bitflip", "fault:truncate", "fault:alter-field", "fault:forged-claims-A", "fault:reattributed", "fault:wrong-context", "fault:cross-context-replay", "fault:unsigned", "fault:empty-body", "fault:unsolicited-control", "fault:stream-reset", "fault:clock-jump"},
	})
}

func (w *c19World) Setup(s *dsim.Sim) {
	t := s.Tape
	w.cw = sig.NewClientWorld(s, []string{"A", "B", "M"})
	arm := []int{0, 50, 100}[t.Draw(3, "arm-pct")]
	s.ArmFraction(arm, []string{"bl:bifrost/signaling/rpc/client/client.go"})
	w.maxOps = 6 + t.Draw(30, "max-ops")
	w.cw.Net.Handler = func(st *sig.Stream) {
		// hostile relay: remember the stream, drain what the client sends
		if st.Kind == "session" {
			w.cur = st
			w.opened = false
		}
		for {
			if _, err := st.C2S.Recv(st.SrvCtx()); err != nil {
				return
			}
		}
	}
	var bo *backoff.Backoff
	if t.Bool(1, 2, "backoff-const") {
		bo = &backoff.Backoff{BackoffKind: backoff.BackoffKind_BackoffKind_CONSTANT}
	}
	B := w.cw.AddClient("B", bo)
	w.cw.OnRecv = func(ev sig.RecvEv, m *signaling.SessionMsg) {
		// authenticity is decided on the signed content (sender, payload): fields outside
		// the signature (relay-level seqno) are not part of "the message".
		if w.poolTxt[ev.Payload] && m.GetSignedMsg().GetFromPeerId() == w.cw.Parties["A"].IDs {
			s.Count("done:honest-accepted")
			return
		}
		if w.viol == nil {
			w.viol = &dsim.Violation{Property: "C19", Rule: "accepted-non-authentic", Witness: w.kindOf(ev.Raw),
				Detail: fmt.Sprintf("B's application received %q as coming from A; these bytes are not a message A signed for B (injected kind: %s)", ev.Payload, w.kindOf(ev.Raw))}
		}
	}
	B.AddRef("A")
	_ = context.Background
}

type c19Inj struct {
	kind string
	raw  []byte
}

func (w *c19World) kindOf(raw []byte) string {
	for _, i := range w.inj {
		if bytes.Equal(i.raw, raw) {
			return i.kind
		}
	}
	return "unknown"
}

func (w *c19World) honest(s *dsim.Sim) *signaling.SessionMsg {
	w.n++
	A := w.cw.Parties["A"]
	sm, err := signaling.NewSessionMsg(A.Priv, hash.HashType_HashType_BLAKE3, []byte(fmt.Sprintf("hello-%d", w.n)), uint64(w.n))
	if err != nil {
		panic(err)
	}
	raw, _ := sm.MarshalVT()
	w.pool = append(w.pool, raw)
	if w.poolTxt == nil {
		w.poolTxt = map[string]bool{}
	}
	w.poolTxt[string(sm.SignedMsg.Data)] = true
	return sm
}

// unpool withdraws the last honest message (it is mutated instead of delivered).
func (w *c19World) unpool(sm *signaling.SessionMsg) {
	w.pool = w.pool[:len(w.pool)-1]
	delete(w.poolTxt, string(sm.SignedMsg.Data))
}

func (w *c19World) sendResp(r *signaling.SessionResponse) {
	b, _ := r.MarshalVT()
	_ = w.cur.S2C.Send(dsim.Item{Data: b})
}

func (w *c19World) recvMsg(sm *signaling.SessionMsg) {
	w.sendResp(&signaling.SessionResponse{Body: &signaling.SessionResponse_RecvMsg{RecvMsg: sm}})
}

var c19Kinds = []string{"honest", "honest", "honest", "replay", "same-signature-new-data", "embedded-pubkey", "bitflip", "truncate", "alter-data", "alter-sender", "forged-claims-A", "reattributed", "wrong-context", "cross-context-replay", "unsigned", "empty-body", "ctl-open", "ctl-close", "ctl-ack", "ctl-clear"}

func (w *c19World) inject(s *dsim.Sim, kind string) {
	A, M := w.cw.Parties["A"], w.cw.Parties["M"]
	t := s.Tape
	note := func(sm *signaling.SessionMsg) {
		raw, _ := sm.MarshalVT()
		w.inj = append(w.inj, c19Inj{kind, raw})
	}
	if kind != "honest" {
		k := kind
		switch kind {
		case "alter-data", "alter-sender", "same-signature-new-data":
			k = "alter-field"
		case "embedded-pubkey":
			k = "forged-claims-A"
		case "ctl-open", "ctl-close", "ctl-ack", "ctl-clear":
			k = "unsolicited-control"
		}
		s.Count("fault:" + k)
	}
	switch kind {
	case "honest":
		w.recvMsg(w.honest(s))
	case "replay":
		if len(w.pool) == 0 {
			w.recvMsg(w.honest(s))
			return
		}
		sm := &signaling.SessionMsg{}
		_ = sm.UnmarshalVT(w.pool[t.Draw(len(w.pool), "replay-idx")])
		w.recvMsg(sm)
	case "same-signature-new-data":
		// a message that WAS delivered honestly before, re-sent with the same signature and
		// sender but a different payload (defeats verification caches keyed by signature)
		if len(w.pool) == 0 {
			w.recvMsg(w.honest(s))
			return
		}
		sm := &signaling.SessionMsg{}
		_ = sm.UnmarshalVT(w.pool[t.Draw(len(w.pool), "replay-idx")])
		sm.SignedMsg.Data = append(append([]byte(nil), sm.SignedMsg.Data...), []byte("-altered")...)
		note(sm)
		w.recvMsg(sm)
	case "embedded-pubkey":
		// signed by M's key; M's public key is embedded in the signature object; sender says A
		w.n++
		body := []byte(fmt.Sprintf("embedded-%d", w.n))
		sigObj, _ := peer.NewSignature("bifrost/signaling/rpc session msg 2024-06-05T02:45:07.208906Z", M.Priv, hash.HashType_HashType_BLAKE3, body, true)
		sm := &signaling.SessionMsg{Seqno: uint64(w.n), SignedMsg: &peer.SignedMsg{FromPeerId: A.IDs, Data: body, Signature: sigObj}}
		note(sm)
		w.recvMsg(sm)
	case "bitflip", "truncate":
		// A's client did submit this one; the relay damages it in transit. If the damage
		// misses the signed content (e.g. hits the relay-level seqno) the content is still
		// authentic and may be accepted.
		sm := w.honest(s)
		r := &signaling.SessionResponse{Body: &signaling.SessionResponse_RecvMsg{RecvMsg: sm}}
		b, _ := r.MarshalVT()
		if kind == "bitflip" {
			i := t.Draw(len(b), "flip-byte")
			b[i] ^= byte(1 << uint(t.Draw(8, "flip-bit")))
		} else {
			b = b[:1+t.Draw(len(b)-1, "trunc-len")]
		}
		// what would the client decode from this? (for the witness only)
		var dec signaling.SessionResponse
		if dec.UnmarshalVT(b) == nil && dec.GetRecvMsg() != nil {
			note(dec.GetRecvMsg())
		}
		_ = w.cur.S2C.Send(dsim.Item{Data: b})
	case "alter-data":
		sm := w.honest(s)
		w.unpool(sm)
		sm.SignedMsg.Data = append(sm.SignedMsg.Data, '!')
		note(sm)
		w.recvMsg(sm)
	case "alter-sender":
		// M's genuine message with the sender field rewritten to A
		w.n++
		sm, _ := signaling.NewSessionMsg(M.Priv, hash.HashType_HashType_BLAKE3, []byte(fmt.Sprintf("evil-%d", w.n)), uint64(w.n))
		sm.SignedMsg.FromPeerId = A.IDs
		note(sm)
		w.recvMsg(sm)
	case "forged-claims-A":
		// signature object made by M over the body, embedded key = M's, sender says A
		w.n++
		sm, _ := signaling.NewSessionMsg(M.Priv, hash.HashType_HashType_BLAKE3, []byte(fmt.Sprintf("forged-%d", w.n)), uint64(w.n))
		sm.SignedMsg.FromPeerId = A.IDs
		sm.Seqno += 100
		note(sm)
		w.recvMsg(sm)
	case "reattributed":
		// a genuine message of M delivered inside A's session
		w.n++
		sm, _ := signaling.NewSessionMsg(M.Priv, hash.HashType_HashType_BLAKE3, []byte(fmt.Sprintf("from-M-%d", w.n)), uint64(w.n))
		note(sm)
		w.recvMsg(sm)
	case "wrong-context":
		w.n++
		inner, _ := peer.NewSignedMsg("bifrost/pubsub another context", A.Priv, hash.HashType_HashType_BLAKE3, []byte(fmt.Sprintf("ctx-%d", w.n)))
		sm := &signaling.SessionMsg{SignedMsg: inner, Seqno: uint64(w.n)}
		note(sm)
		w.recvMsg(sm)
	case "cross-context-replay":
		// a message A really signed, for another purpose (a pubsub publication), which B's
		// own process has already verified in THAT context; the relay replays the identical
		// signed message as a signaling message
		w.n++
		inner, _, err := pubmessage.NewPubMessage("some-channel", A.Priv, hash.HashType_HashType_BLAKE3, []byte(fmt.Sprintf("pubsub-%d", w.n)))
		if err != nil {
			panic(err)
		}
		if _, _, _, err := pubmessage.ExtractAndVerify(inner); err != nil {
			panic(err)
		}
		sm := &signaling.SessionMsg{SignedMsg: inner, Seqno: uint64(w.n)}
		note(sm)
		w.recvMsg(sm)
	case "unsigned":
		sm := w.honest(s)
		w.unpool(sm)
		sm.SignedMsg.Signature = nil
		note(sm)
		w.recvMsg(sm)
	case "empty-body":
		sm := w.honest(s)
		w.unpool(sm)
		sm.SignedMsg.Data = nil
		note(sm)
		w.recvMsg(sm)
	case "ctl-open":
		w.epoch += uint64(t.Draw(3, "epoch-step"))
		w.sendResp(&signaling.SessionResponse{Body: &signaling.SessionResponse_Opened{Opened: w.epoch}})
	case "ctl-close":
		w.sendResp(&signaling.SessionResponse{Body: &signaling.SessionResponse_Closed{Closed: true}})
	case "ctl-ack":
		w.sendResp(&signaling.SessionResponse{Body: &signaling.SessionResponse_AckMsg{AckMsg: uint64(t.Draw(6, "seq"))}})
	case "ctl-clear":
		w.sendResp(&signaling.SessionResponse{Body: &signaling.SessionResponse_ClearMsg{ClearMsg: uint64(t.Draw(6, "seq"))}})
	}
}

func (w *c19World) Actions(s *dsim.Sim, add func(dsim.Action)) {
	w.cw.Net.GC()
	w.cw.Net.DeliveryActions(add)
	if s.Phase == dsim.PhaseStable || w.ops >= w.maxOps {
		return
	}
	if w.cur != nil && w.cur.Alive() && w.cur.ServerRunning() {
		if !w.opened {
			add(dsim.Action{Name: "3op:relay:open", Weight: 10, Fire: func() {
				w.opened = true
				w.epoch++
				w.sendResp(&signaling.SessionResponse{Body: &signaling.SessionResponse_Opened{Opened: w.epoch}})
			}})
		} else {
			add(dsim.Action{Name: "3op:relay:inject", Weight: 10, Fire: func() {
				w.ops++
				k := c19Kinds[s.Tape.Draw(len(c19Kinds), "kind")]
				s.Logf("relay injects %s", k)
				w.inject(s, k)
			}})
		}
		add(dsim.Action{Name: "5flt:reset-cur", Weight: 1, Fault: true, Fire: func() {
			s.Count("fault:stream-reset")
			w.cur.Reset("fault")
		}})
	}
}

func (w *c19World) Invariant(s *dsim.Sim) *dsim.Violation { return w.viol }
func (w *c19World) Done(s *dsim.Sim) bool                 { return true }
func (w *c19World) Final(s *dsim.Sim, stuck bool) *dsim.Violation {
	return w.viol
}
func (w *c19World) Teardown(s *dsim.Sim) { w.cw.Teardown() }
