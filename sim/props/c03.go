package props

import (
	"context"
	"crypto/ecdsa"
	"crypto/elliptic"
	"crypto/rand"
	"crypto/tls"
	"crypto/x509"
	"crypto/x509/pkix"
	"fmt"
	"math/big"
	"net"
	"time"

	p2ptls "github.com/aperturerobotics/bifrost/crypto/tls"
	"github.com/aperturerobotics/bifrost/link"
	"github.com/aperturerobotics/bifrost/peer"
	"github.com/aperturerobotics/bifrost/transport/common/dialer"
	transport_quic "github.com/aperturerobotics/bifrost/transport/common/quic"
	"github.com/quic-go/quic-go"

	"verif/sim/dsim"
	"verif/sim/worlds/node"
	"verif/sim/worlds/pnet"
	"verif/sim/worlds/sig"
)

// C03: links are authenticated to the peer that holds the key.
//
// World QUIC: three honest full nodes (A, B and an impostor-capable C; real bus, real
// transport controller, real pconn/QUIC transport, real crypto/tls and quic-go over the
// simulator's datagram network) plus a forger F: a bare quic-go endpoint built by the
// harness that presents crafted certificate chains when it dials an honest listener:
// "valid" (a correct chain for F's own key, control), "copied-extension" (the victim's
// signed-key extension placed on F's certificate key), "no-extension", "corrupt-asn1",
// "wrong-signer" (extension names the victim's key but is signed by F), "two-certs",
// "not-self-signed" (a correct binding for F's own key on a certificate signed by another key),
// "replayed-extension" (the extension of the certificate the victim's transport really presents).
// Other operations: honest dials through the controller (DialPeerAddr) with the address
// rebinding fault (an address served by B now, by C later), and direct
// Transport.HandleConn(dial|listen) calls on private datagram pairs (the path WebRTC and
// the stream transports use) with the expected peer empty, right or wrong. Faults: packet
// loss, duplication, reordering, corruption, clock jumps.
//
// Oracle, evaluated on every link any transport reports through HandleLinkEstablished
// (recorded by a proxy around the handler the controller passes to the constructor):
// the link's remote peer is the identity of an endpoint that really sent the packets
// arriving from the link's remote address (the datagram network knows the sender of
// every packet); F never obtains a link with an invalid chain, and with its valid chain
// only as itself; a HandleConn call with a non-empty expected peer that a different peer
// answers returns an error and reports no link.
type c03World struct {
	s           *dsim.Sim
	net         *node.Net
	pn          *pnet.Net
	nodes       map[string]*node.Node
	tcs         map[string]*node.TC
	conns       map[string]*pnet.Conn
	addrOf      map[string]pnet.Addr
	ident       map[string]peer.ID // endpoint name -> identity it may legitimately prove
	ops         int
	maxOps      int
	loss        int
	viol        *dsim.Violation
	forgeN      int
	pairN       int
	forgerValid bool
	ctx         context.Context
	cancel      context.CancelFunc
}

func init() {
	register(&Spec{
		ID: "C03", World: "QUIC",
		New:        func() dsim.World { return &c03World{} },
		Cfg:        dsim.Config{MaxChaosSteps: 500, MaxStableSteps: 30000, Horizon: 2 * time.Minute},
		Real:       []string{"crypto/tls (p2ptls): Identity, ConfigForPeer, PubKeyFromCertChain, signed-key extension", "transport/common/quic: DialSession, ListenSession, HandleConn, HandleSession, NewLink/DetermineSessionIdentity", "transport/common/pconn.Transport listener and dialer", "transport/controller.Controller", "quic-go v0.59 and crypto/tls handshakes"},
		Stub:       []string{"net.PacketConn endpoints on the simulator's datagram network", "the forger is a harness-built quic-go client with crafted certificates", "websocket and WebRTC front-ends are not run; their shared HandleConn path is"},
		FaultKinds: []string{"fault:forged-copied-extension", "fault:forged-no-extension", "fault:forged-corrupt-asn1", "fault:forged-wrong-signer", "fault:forged-two-certs", "fault:forged-not-self-signed", "fault:forged-replayed-extension", "fault:forged-valid-copied-serial", "fault:expected-peer-wrong", "fault:address-rebind", "fault:packet-loss", "fault:packet-dup", "fault:packet-reorder", "fault:packet-corrupt", "fault:clock-jump"},
	})
}

func (w *c03World) fail(v *dsim.Violation) {
	if w.viol == nil {
		w.viol = v
	}
}

func (w *c03World) Setup(s *dsim.Sim) {
	w.s = s
	t := s.Tape
	w.ctx, w.cancel = context.WithCancel(context.Background())
	w.net = node.NewNet(s)
	w.pn = pnet.New(s)
	w.nodes = map[string]*node.Node{}
	w.tcs = map[string]*node.TC{}
	w.conns = map[string]*pnet.Conn{}
	w.addrOf = map[string]pnet.Addr{}
	w.ident = map[string]peer.ID{}
	for _, nm := range []string{"A", "B", "C"} {
		nd := w.net.AddNode(nm, nm)
		w.nodes[nm] = nd
		addr := pnet.Addr("a" + nm)
		c := w.pn.Listen(nm, addr)
		w.conns[nm] = c
		w.addrOf[nm] = addr
		w.ident[nm] = nd.P.ID
		nm := nm
		w.tcs[nm] = nd.AddQuicTransport("t"+nm, nm, c, nil, func(l link.Link) { w.onEstablished(nm, w.addrOf[nm], l) })
	}
	w.net.Party("F")
	w.maxOps = 2 + t.Draw(8, "max-ops")
	w.loss = t.Draw(5, "loss-budget")
}

// onEstablished is the core oracle.
func (w *c03World) onEstablished(at string, local pnet.Addr, l link.Link) {
	s := w.s
	ql, ok := l.(*transport_quic.Link)
	if !ok {
		return
	}
	raddr := pnet.Addr(ql.RemoteAddr().String())
	senders := w.pn.SendersFrom(raddr)
	claimed := l.GetRemotePeer()
	s.Logf("link-established at %s from %s: remote=%s (packets from %v)", at, raddr, w.net.Names[claimed.String()], senders)
	s.Count("done:link-established")
	for _, e := range senders {
		if id, ok := w.ident[e]; ok && id == claimed {
			return
		}
	}
	w.fail(&dsim.Violation{Property: "C03", Rule: "link-names-identity-that-did-not-handshake", Witness: fmt.Sprintf("claimed=%s", w.net.Names[claimed.String()]),
		Detail: fmt.Sprintf("node %s reports a link from %s whose remote peer is %s, but the packets from that address were sent by %v (identities they can prove: %v)", at, raddr, w.net.Names[claimed.String()], senders, w.identNames(senders))})
}

func (w *c03World) identNames(es []string) []string {
	var out []string
	for _, e := range es {
		if id, ok := w.ident[e]; ok {
			out = append(out, w.net.Names[id.String()])
		} else {
			out = append(out, e+":none")
		}
	}
	return out
}

// forgedCert builds the crafted chain of the given kind; victim is the identity F tries
// to pass for.
func (w *c03World) forgedCert(kind string, victim, forger *sig.Party) tls.Certificate {
	certKey, err := ecdsa.GenerateKey(elliptic.P256(), rand.Reader)
	if err != nil {
		panic(err)
	}
	tmpl := &x509.Certificate{SerialNumber: big.NewInt(int64(1000 + w.forgeN)), NotBefore: time.Now().Add(-time.Hour), NotAfter: time.Now().Add(time.Hour * 24 * 365), Subject: pkix.Name{SerialNumber: "1"}}
	switch kind {
	case "valid":
		ext, err := p2ptls.GenerateSignedExtension(forger.Priv, certKey.Public())
		if err != nil {
			panic(err)
		}
		tmpl.ExtraExtensions = append(tmpl.ExtraExtensions, ext)
	case "copied-extension":
		// the victim's extension as it appears on the victim's own certificate (signature
		// over the VICTIM's certificate key), copied onto F's certificate key
		victimCertKey, _ := ecdsa.GenerateKey(elliptic.P256(), rand.Reader)
		ext, _ := p2ptls.GenerateSignedExtension(victim.Priv, victimCertKey.Public())
		tmpl.ExtraExtensions = append(tmpl.ExtraExtensions, ext)
	case "valid-copied-serial":
		// a correct chain for F's OWN identity whose serial number is the one of the
		// certificate the victim's transport presents (serial numbers are public and not
		// unique across issuers; every peer is its own issuer)
		ext, err := p2ptls.GenerateSignedExtension(forger.Priv, certKey.Public())
		if err != nil {
			panic(err)
		}
		tmpl.ExtraExtensions = append(tmpl.ExtraExtensions, ext)
		if sn := w.liveSerial(victim); sn != nil {
			tmpl.SerialNumber = sn
			w.s.Count("probe:copied-live-serial")
		}
	case "replayed-extension":
		// the extension exactly as it appears on the certificate the victim presents to
		// everybody (anyone who connects to the victim sees it), placed on F's certificate key
		ext, ok := w.liveExtension(victim)
		if ok {
			w.s.Count("probe:replayed-live-extension")
		} else {
			victimCertKey, _ := ecdsa.GenerateKey(elliptic.P256(), rand.Reader)
			ext, _ = p2ptls.GenerateSignedExtension(victim.Priv, victimCertKey.Public())
		}
		tmpl.ExtraExtensions = append(tmpl.ExtraExtensions, ext)
	case "no-extension":
	case "corrupt-asn1":
		ext, _ := p2ptls.GenerateSignedExtension(victim.Priv, certKey.Public())
		ext.Value = append([]byte{0x30, 0x82, 0xff}, ext.Value[3:]...)
		tmpl.ExtraExtensions = append(tmpl.ExtraExtensions, ext)
	case "wrong-signer":
		// F signs the binding with its own key but the extension names the victim's public key
		extF, _ := p2ptls.GenerateSignedExtension(forger.Priv, certKey.Public())
		extV, _ := p2ptls.GenerateSignedExtension(victim.Priv, certKey.Public())
		// splice: victim's key bytes, F's signature. Both extensions are ASN.1 SEQUENCE{pub, sig}
		// with fixed-size ed25519 fields, so the signature is the tail of the value.
		sigLen := 64
		v := append([]byte(nil), extV.Value...)
		copy(v[len(v)-sigLen:], extF.Value[len(extF.Value)-sigLen:])
		extV.Value = v
		tmpl.ExtraExtensions = append(tmpl.ExtraExtensions, extV)
	case "two-certs":
		ext, _ := p2ptls.GenerateSignedExtension(forger.Priv, certKey.Public())
		tmpl.ExtraExtensions = append(tmpl.ExtraExtensions, ext)
	}
	signer := certKey
	if kind == "not-self-signed" {
		// a correct key binding for F's own identity, but the certificate is signed by some
		// other key (issuer and subject names equal): not a self-signed certificate
		ext, _ := p2ptls.GenerateSignedExtension(forger.Priv, certKey.Public())
		tmpl.ExtraExtensions = append(tmpl.ExtraExtensions, ext)
		signer, _ = ecdsa.GenerateKey(elliptic.P256(), rand.Reader)
	}
	der, err := x509.CreateCertificate(rand.Reader, tmpl, tmpl, certKey.Public(), signer)
	if err != nil {
		panic(err)
	}
	chain := [][]byte{der}
	if kind == "two-certs" {
		chain = append(chain, der)
	}
	return tls.Certificate{Certificate: chain, PrivateKey: certKey}
}

// liveSerial returns the serial number of the certificate the victim's transport presents.
func (w *c03World) liveSerial(victim *sig.Party) *big.Int {
	for _, nm := range []string{"A", "B", "C"} {
		tc := w.tcs[nm]
		if tc == nil || tc.P.ID != victim.ID || tc.Quic == nil {
			continue
		}
		conf, _ := tc.Quic.GetIdentity().ConfigForPeer("")
		if len(conf.Certificates) == 0 || len(conf.Certificates[0].Certificate) == 0 {
			continue
		}
		if cert, err := x509.ParseCertificate(conf.Certificates[0].Certificate[0]); err == nil {
			return cert.SerialNumber
		}
	}
	return nil
}

// liveExtension returns the signed-key extension of the certificate that the victim's
// running transport presents in its handshakes.
func (w *c03World) liveExtension(victim *sig.Party) (pkix.Extension, bool) {
	refKey, _ := ecdsa.GenerateKey(elliptic.P256(), rand.Reader)
	ref, _ := p2ptls.GenerateSignedExtension(victim.Priv, refKey.Public())
	for _, nm := range []string{"A", "B", "C"} {
		tc := w.tcs[nm]
		if tc == nil || tc.P.ID != victim.ID || tc.Quic == nil {
			continue
		}
		conf, _ := tc.Quic.GetIdentity().ConfigForPeer("")
		if len(conf.Certificates) == 0 || len(conf.Certificates[0].Certificate) == 0 {
			continue
		}
		cert, err := x509.ParseCertificate(conf.Certificates[0].Certificate[0])
		if err != nil {
			continue
		}
		for _, e := range cert.Extensions {
			if e.Id.Equal(ref.Id) {
				return pkix.Extension{Id: e.Id, Critical: e.Critical, Value: e.Value}, true
			}
		}
	}
	return pkix.Extension{}, false
}

var c03ForgeKinds = []string{"valid", "copied-extension", "no-extension", "corrupt-asn1", "wrong-signer", "two-certs", "not-self-signed", "replayed-extension", "valid-copied-serial"}

func (w *c03World) forge(victimNode string) {
	s := w.s
	t := s.Tape
	w.forgeN++
	kind := c03ForgeKinds[t.Draw(len(c03ForgeKinds), "forge-kind")]
	name := fmt.Sprintf("F%d", w.forgeN)
	addr := pnet.Addr("af" + fmt.Sprint(w.forgeN))
	pc := w.pn.Listen(name, addr)
	forger := w.net.Party("F")
	// what identity may this endpoint legitimately prove?
	if kind == "valid" || kind == "valid-copied-serial" {
		// (both are correct chains for F's own identity: a link may name F, nobody else)
		w.ident[name] = forger.ID
		if kind != "valid" {
			s.Count("fault:forged-" + kind)
		}
	} else {
		s.Count("fault:forged-" + kind)
	}
	// pretend to be some honest identity other than the node we dial
	var victim *sig.Party
	for _, nm := range []string{"A", "B", "C"} {
		if nm != victimNode {
			victim = w.net.Party(nm)
		}
	}
	cert := w.forgedCert(kind, victim, forger)
	tlsConf := &tls.Config{
		MinVersion:         tls.VersionTLS13,
		InsecureSkipVerify: true,
		Certificates:       []tls.Certificate{cert},
		NextProtos:         []string{transport_quic.Alpn},
	}
	qconf := transport_quic.BuildQuicConfig(&transport_quic.Opts{MaxIdleTimeoutDur: "30s", DisableKeepAlive: true, DisablePathMtuDiscovery: true})
	s.Logf("forger %s (%s) dials %s claiming %s", name, kind, victimNode, victim.Name)
	ctx, cancel := context.WithTimeout(w.ctx, 20*time.Second)
	go func() {
		defer cancel()
		conn, err := quic.Dial(ctx, pc, w.addrOf[victimNode], tlsConf, qconf)
		s.Logf("forger %s dial returned err=%v", name, err)
		if err == nil {
			// keep it open for a while so that the victim can report a link if it accepted
			select {
			case <-ctx.Done():
			case <-time.After(5 * time.Second):
			}
			_ = conn.CloseWithError(0, "bye")
		}
	}()
}

// handleConnPair runs Transport.HandleConn on a private datagram pair between two honest
// nodes with expected peers chosen from {empty, right, wrong}.
func (w *c03World) handleConnPair() {
	s := w.s
	t := s.Tape
	w.pairN++
	names := []string{"A", "B", "C"}
	d := names[t.Draw(3, "dialer")]
	l := names[(indexOf(names, d)+1+t.Draw(2, "listener"))%3]
	third := ""
	for _, n := range names {
		if n != d && n != l {
			third = n
		}
	}
	da, la := pnet.Addr(fmt.Sprintf("p%d%s", w.pairN, d)), pnet.Addr(fmt.Sprintf("p%d%s", w.pairN, l))
	pd, pl := w.pn.Listen(d, da), w.pn.Listen(l, la)
	expect := func(right string, label string) (peer.ID, string) {
		switch t.Draw(3, label) {
		case 0:
			return "", "any"
		case 1:
			return w.ident[right], "right"
		default:
			s.Count("fault:expected-peer-wrong")
			return w.ident[third], "wrong"
		}
	}
	dExp, dKind := expect(l, "dial-expects")
	lExp, lKind := expect(d, "listen-expects")
	s.Logf("HandleConn pair #%d: %s dials %s (expects %s), %s listens (expects %s)", w.pairN, d, l, dKind, l, lKind)
	run := func(nodeName string, dial bool, pc net.PacketConn, raddr net.Addr, exp peer.ID, kind string, local pnet.Addr, otherKind string) {
		ctx, cancel := context.WithTimeout(w.ctx, 30*time.Second)
		defer cancel()
		// the recording proxy is keyed on the main address; for private pairs record here
		lnk, err := w.tcs[nodeName].Quic.Transport.HandleConn(ctx, dial, pc, raddr, exp)
		s.Logf("HandleConn at %s (dial=%v, expects %s) -> link=%v err=%v", nodeName, dial, kind, lnk != nil, err)
		if err == nil && lnk != nil {
			s.Count("done:handleconn-link")
			w.onEstablished(nodeName, local, lnk)
			if kind == "wrong" {
				w.fail(&dsim.Violation{Property: "C03", Rule: "expected-peer-mismatch-accepted", Witness: fmt.Sprintf("dial=%v", dial),
					Detail: fmt.Sprintf("HandleConn at %s required the remote peer to be %s, a different peer answered and a link to %s was returned", nodeName, w.net.Names[exp.String()], w.net.Names[lnk.GetRemotePeer().String()])})
			}
		}
	}
	go run(d, true, pd, la, dExp, dKind, da, lKind)
	go run(l, false, pl, nil, lExp, lKind, la, dKind)
}

func indexOf(xs []string, x string) int {
	for i, y := range xs {
		if y == x {
			return i
		}
	}
	return 0
}

func (w *c03World) Actions(s *dsim.Sim, add func(dsim.Action)) {
	faults := s.Phase == dsim.PhaseChaos
	w.pn.Actions(add, faults, &w.loss)
	if s.Phase == dsim.PhaseStable || w.ops >= w.maxOps {
		return
	}
	t := s.Tape
	names := []string{"A", "B", "C"}
	add(dsim.Action{Name: "3op:forger-dial", Weight: 6, Fire: func() { w.ops++; w.forge(names[t.Draw(3, "victim")]) }})
	add(dsim.Action{Name: "3op:handleconn-pair", Weight: 4, Fire: func() { w.ops++; w.handleConnPair() }})
	add(dsim.Action{Name: "3op:honest-dial", Weight: 4, Fire: func() {
		w.ops++
		from := names[t.Draw(3, "from")]
		to := names[(indexOf(names, from)+1+t.Draw(2, "to"))%3]
		// usually the caller expects the owner of the address; sometimes the third party
		// (a dial that overlaps another caller's dial of the same address with another
		// expectation shares the transport's per-address dialer)
		exp := to
		if t.Bool(1, 3, "expect-third-party") {
			s.Count("fault:expected-peer-wrong")
			for _, nm := range names {
				if nm != from && nm != to {
					exp = nm
				}
			}
		}
		s.Logf("honest dial %s -> %s@%s expecting %s (served by %s)", from, to, w.addrOf[to], exp, w.pn.BoundName(w.addrOf[to]))
		go func() {
			ctx, cancel := context.WithTimeout(w.ctx, 40*time.Second)
			defer cancel()
			lnk, err := w.tcs[from].Ctrl.DialPeerAddr(ctx, w.ident[exp], &dialer.DialerOpts{Address: string(w.addrOf[to])})
			if err == nil && lnk != nil {
				s.Count("done:honest-dial")
				if lnk.GetRemotePeer() != w.ident[exp] {
					w.fail(&dsim.Violation{Property: "C03", Rule: "dial-returned-other-peer", Witness: "DialPeerAddr",
						Detail: fmt.Sprintf("%s dialed %s requiring the remote peer to be %s and got a link to %s", from, w.addrOf[to], exp, w.net.Names[lnk.GetRemotePeer().String()])})
				}
			}
		}()
	}})
	add(dsim.Action{Name: "5flt:rebind", Weight: 2, Fault: true, Fire: func() {
		w.ops++
		s.Count("fault:address-rebind")
		// make B's address reach C (or back)
		if w.pn.BoundName("aB") == "B" {
			// C answers from the same address: give it an endpoint with B's address
			if w.conns["C@aB"] == nil {
				c := w.pn.Listen("C", "aB")
				w.conns["C@aB"] = c
				nd := w.net.AddNode("C2", "C")
				w.nodes["C2"] = nd
				w.tcs["C2"] = nd.AddQuicTransport("tC2", "C", c, nil, func(l link.Link) { w.onEstablished("C2", "aB", l) })
			}
			w.pn.Rebind("aB", w.conns["C@aB"])
		} else {
			w.pn.Rebind("aB", w.conns["B"])
		}
	}})
}

func (w *c03World) Invariant(s *dsim.Sim) *dsim.Violation { return w.viol }
func (w *c03World) Done(s *dsim.Sim) bool                 { return w.pn.InTransit() == 0 }
func (w *c03World) Final(s *dsim.Sim, stuck bool) *dsim.Violation {
	s.Count("done:final")
	return w.viol
}

func (w *c03World) Teardown(s *dsim.Sim) {
	w.cancel()
	w.net.Close()
	for _, nd := range w.net.Nodes {
		nd.Shutdown()
	}
	w.pn.CloseAll()
	for _, c := range w.conns {
		_ = c.Close()
	}
}
