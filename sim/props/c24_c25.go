package props

import (
	"errors"
	"fmt"
	"sort"
	"strings"

	signaling "github.com/aperturerobotics/bifrost/signaling/rpc"

	"verif/sim/dsim"
	"verif/sim/worlds/sig"
)

// C24 / C25: relay bookkeeping under churn of Listen and Session calls.
//
// World SIG, real relay Server, three scripted parties on raw streams. Operations:
// start a Listen call (a second one while the first runs = replacement), close it,
// open a Session toward another party (second one for the same ordered pair =
// replacement), close it. Faults: stream resets, clock jumps; relay handlers park at
// armed mutex sites.
//
// C24 oracle (at quiescence: nothing in transit, nothing parked): for every party with
// a running Listen call, announcements minus withdrawals on that call equals the set
// of parties whose Session call toward it is running (registered).
//
// C25 oracle: (1) at quiescence at most one Listen call per party and one Session call
// per ordered pair is running; (2) a call that the harness neither closed nor reset
// and that the relay ended was ended with the replaced error (ErrUserpedListen /
// ErrUserpedSession); (3) after the harness closed every call and everything drained,
// the relay holds no per-peer and no per-session state (verif accessor).
type churnWorld struct {
	prop     string
	rw       *sig.RawWorld
	names    []string
	ops      int
	maxOps   int
	resets   int
	maxReset int
	closing  bool
	closed   bool
	viol     *dsim.Violation
}

func init() {
	for _, id := range []string{"C24", "C25"} {
		id := id
		register(&Spec{
			ID: id, World: "SIG",
			New:        func() dsim.World { return &churnWorld{prop: id} },
			Cfg:        defaultCfg,
			Real:       []string{"signaling/rpc/server.Server.Listen and .Session (peer trackers, session trackers, replacement, cleanup)"},
			Stub:       []string{"scripted raw Listen/Session streams in place of clients", "srpc transport replaced by simulator-owned message streams", "stream identity callback"},
			FaultKinds: []string{"fault:stream-reset", "fault:clock-jump", "fault:replace-listen", "fault:replace-session"},
		})
	}
}

func (w *churnWorld) Setup(s *dsim.Sim) {
	t := s.Tape
	w.names = []string{"A", "B", "C"}
	if t.Bool(1, 3, "two-parties") {
		w.names = []string{"A", "B"}
	}
	w.rw = sig.NewRawWorld(s, w.names)
	arm := []int{0, 40, 70, 100}[t.Draw(4, "arm-pct")]
	s.ArmFraction(arm, []string{"sigsrv/"})
	w.maxOps = 3 + t.Draw(14, "max-ops")
	w.maxReset = t.Draw(3, "max-resets")
}

func (w *churnWorld) liveListens(p string) []*sig.ListenCall {
	var out []*sig.ListenCall
	for _, l := range w.rw.Listens {
		if l.P.Name == p && l.Live() {
			out = append(out, l)
		}
	}
	return out
}

func (w *churnWorld) liveCalls(p, q string) []*sig.RawCall {
	var out []*sig.RawCall
	for _, c := range w.rw.Calls {
		if c.P.Name == p && c.To.Name == q && c.Live() {
			out = append(out, c)
		}
	}
	return out
}

func (w *churnWorld) Actions(s *dsim.Sim, add func(dsim.Action)) {
	w.rw.Net.DeliveryActions(add)
	if s.Phase == dsim.PhaseStable {
		if w.prop == "C25" && !w.closed && w.rw.Idle() && s.ParkedCount() == 0 {
			// close every call the harness still holds, one per step
			for _, l := range w.rw.Listens {
				if l.Live() {
					l := l
					add(dsim.Action{Name: "3op:closeL:" + l.St.Name, Fire: func() { l.Close() }})
					return
				}
			}
			for _, c := range w.rw.Calls {
				if c.Live() {
					c := c
					add(dsim.Action{Name: "3op:close:" + c.St.Name, Fire: func() { c.Close() }})
					return
				}
			}
			w.closed = true
		}
		return
	}
	if w.ops < w.maxOps {
		for _, p := range w.names {
			p := p
			ll := w.liveListens(p)
			if len(ll) < 2 {
				add(dsim.Action{Name: "3op:listen:" + p, Weight: 4, Fire: func() {
					w.ops++
					if len(w.rw.RunningListens(p)) > 0 {
						s.Count("fault:replace-listen")
					}
					w.rw.Listen(p)
				}})
			}
			for _, q := range w.names {
				q := q
				if q == p {
					continue
				}
				if len(w.liveCalls(p, q)) < 2 {
					add(dsim.Action{Name: "3op:attach:" + p + ">" + q, Weight: 4, Fire: func() {
						w.ops++
						if len(w.rw.Running(p, q)) > 0 {
							s.Count("fault:replace-session")
						}
						w.rw.Attach(p, q)
					}})
				}
			}
		}
	}
	for _, l := range w.rw.Listens {
		if l.Live() {
			l := l
			add(dsim.Action{Name: "3op:closeL:" + l.St.Name, Weight: 2, Fire: func() { l.Close() }})
		}
	}
	for _, c := range w.rw.Calls {
		if c.Live() {
			c := c
			add(dsim.Action{Name: "3op:close:" + c.St.Name, Weight: 3, Fire: func() { c.Close() }})
		}
	}
	if w.resets < w.maxReset {
		w.rw.Net.ResetActions(func(a dsim.Action) {
			f := a.Fire
			a.Fire = func() { w.resets++; f() }
			add(a)
		}, 1, nil)
	}
}

func setStr(m map[string]bool) string {
	var ks []string
	for k, v := range m {
		if v {
			ks = append(ks, k)
		}
	}
	sort.Strings(ks)
	return "{" + strings.Join(ks, ",") + "}"
}

func (w *churnWorld) quiescentCheck(s *dsim.Sim) *dsim.Violation {
	if !w.rw.Idle() || s.ParkedCount() > 0 {
		return nil
	}
	if w.prop == "C24" {
		for _, p := range w.names {
			rl := w.rw.RunningListens(p)
			if len(rl) != 1 {
				continue // none, or the duplicate case that C25 decides
			}
			l := rl[0]
			want := map[string]bool{}
			for _, q := range w.names {
				if q != p && len(w.rw.Running(q, p)) > 0 {
					want[q] = true
				}
			}
			s.Count("probe:listener-quiescent")
			s.NoteState(dsim.HashStr(p + setStr(want) + setStr(l.Set)))
			if setStr(want) != setStr(l.Set) {
				kind := "missing-announcement"
				for k := range l.Set {
					if !want[k] {
						kind = "stale-announcement"
					}
				}
				return &dsim.Violation{Property: "C24", Rule: "announced-set!=requesters", Witness: kind,
					Detail: fmt.Sprintf("listen call %s of %s: announced-minus-withdrawn %s but parties with a registered session toward it are %s (events %v)", l.St.Name, p, setStr(l.Set), setStr(want), l.Events)}
			}
			if l.Anomaly != "" {
				return &dsim.Violation{Property: "C24", Rule: "listen-protocol-anomaly", Witness: "redundant-set-or-clear", Detail: l.St.Name + ": " + l.Anomaly}
			}
		}
		return nil
	}
	// C25
	for _, p := range w.names {
		if n := len(w.rw.RunningListens(p)); n > 1 {
			return &dsim.Violation{Property: "C25", Rule: "two-active-listens", Witness: "older-listen-not-replaced",
				Detail: fmt.Sprintf("%d Listen calls of %s are running at quiescence", n, p)}
		}
		for _, q := range w.names {
			if q == p {
				continue
			}
			if n := len(w.rw.Running(p, q)); n > 1 {
				return &dsim.Violation{Property: "C25", Rule: "two-active-sessions", Witness: "older-session-not-replaced",
					Detail: fmt.Sprintf("%d Session calls %s>%s are running at quiescence", n, p, q)}
			}
		}
	}
	// calls ended by the relay on its own must carry the replaced error
	for i, l := range w.rw.Listens {
		if l.St.SrvDone && !l.Closed && l.St.Alive() {
			s.Count("probe:listen-ended-by-relay")
			if !errors.Is(l.St.SrvErr, signaling.ErrUserpedListen) {
				return &dsim.Violation{Property: "C25", Rule: "listen-ended-without-replaced-error", Witness: "unexpected-end",
					Detail: fmt.Sprintf("%s ended by the relay with %v", l.St.Name, l.St.SrvErr)}
			}
			_ = i
		}
	}
	for i, c := range w.rw.Calls {
		if c.St.SrvDone && !c.Closed && c.St.Alive() {
			s.Count("probe:session-ended-by-relay")
			if !errors.Is(c.St.SrvErr, signaling.ErrUserpedSession) {
				return &dsim.Violation{Property: "C25", Rule: "session-ended-without-replaced-error", Witness: "unexpected-end",
					Detail: fmt.Sprintf("%s ended by the relay with %v", c.St.Name, c.St.SrvErr)}
			}
			_ = i
		}
	}
	// Only a call that a later-registered call of the same peer (pair) replaced may end with
	// the replaced error; the call that registered last never does. Registration happens
	// somewhere between "handler started" and "handler returned", so: a group of calls is
	// inconsistent if some call ended "replaced" and no call that did NOT end that way can
	// have been the last to register (each such call had returned before another one started).
	groups := map[string][]*sig.Stream{}
	replaced := map[*sig.Stream]bool{}
	for _, l := range w.rw.Listens {
		if l.St.StartSeq == 0 {
			continue
		}
		k := "listen " + l.P.Name
		groups[k] = append(groups[k], l.St)
		if l.St.SrvDone && errors.Is(l.St.SrvErr, signaling.ErrUserpedListen) {
			replaced[l.St] = true
		}
	}
	for _, c := range w.rw.Calls {
		if c.St.StartSeq == 0 {
			continue
		}
		k := "session " + c.P.Name + ">" + c.To.Name
		groups[k] = append(groups[k], c.St)
		if c.St.SrvDone && errors.Is(c.St.SrvErr, signaling.ErrUserpedSession) {
			replaced[c.St] = true
		}
	}
	gks := make([]string, 0, len(groups))
	for k := range groups {
		gks = append(gks, k)
	}
	sort.Strings(gks)
	for _, k := range gks {
		g := groups[k]
		anyReplaced, lastPossible := false, false
		for _, z := range g {
			if replaced[z] {
				anyReplaced = true
				continue
			}
			canBeLast := true
			for _, o := range g {
				if o != z && z.SrvDone && o.StartSeq > z.DoneSeq {
					canBeLast = false
				}
			}
			if canBeLast {
				lastPossible = true
			}
		}
		if anyReplaced && !lastPossible {
			names := ""
			for _, z := range g {
				names += fmt.Sprintf("%s[start=%d done=%d replaced=%v] ", z.Name, z.StartSeq, z.DoneSeq, replaced[z])
			}
			return &dsim.Violation{Property: "C25", Rule: "replaced-error-without-replacement", Witness: strings.Fields(k)[0],
				Detail: fmt.Sprintf("%s calls: some ended with the replaced error but none of the others can have registered last: %s", k, names)}
		}
	}
	return nil
}

func (w *churnWorld) Invariant(s *dsim.Sim) *dsim.Violation {
	if w.viol != nil {
		return w.viol
	}
	return w.quiescentCheck(s)
}

func (w *churnWorld) Done(s *dsim.Sim) bool {
	if w.prop == "C25" {
		return w.closed && w.rw.Idle() && s.ParkedCount() == 0
	}
	return true
}

func (w *churnWorld) Final(s *dsim.Sim, stuck bool) *dsim.Violation {
	if v := w.quiescentCheck(s); v != nil {
		return v
	}
	s.Count("done:quiescent-check")
	if w.prop == "C25" {
		peers, sessions := w.rw.Net.Server.VerifState()
		running := 0
		for _, st := range w.rw.Net.Streams() {
			if st.ServerRunning() {
				running++
			}
		}
		if running == 0 && (len(peers) != 0 || len(sessions) != 0) {
			var ps []string
			for _, p := range peers {
				ps = append(ps, fmt.Sprintf("%s(listening=%v want=%d)", w.rw.Net.Name(p.Peer), p.Listening, len(p.WantPeers)))
			}
			sort.Strings(ps)
			kind := "peer-state"
			if len(sessions) != 0 {
				kind = "session-state"
			}
			return &dsim.Violation{Property: "C25", Rule: "leftover-relay-state", Witness: kind,
				Detail: fmt.Sprintf("all calls ended but the relay still holds %d peer trackers %v and %d session trackers", len(peers), ps, len(sessions))}
		}
		if running != 0 {
			s.Inconclusive = "harness: handlers still running after close-all"
		}
	}
	return nil
}

func (w *churnWorld) Teardown(s *dsim.Sim) { w.rw.Teardown() }
