package props

import (
	"fmt"

	signaling "github.com/aperturerobotics/bifrost/signaling/rpc"

	"verif/sim/dsim"
	"verif/sim/worlds/sig"
)

// C22: every session re-open is announced before stale messages are dropped.
//
// World SIG, real relay Server, two scripted parties on raw Session streams so that
// everything the relay says to each call is observed in wire order. Operations:
// attach (a second attach while the first call is still registered = usurp), close,
// send/ack/clear tagged with the call's last announced epoch. Faults: stream reset.
// Schedules: relay handlers park at the armed mutex sites (a write loop sleeping
// through detach + re-attach is the crucial one).
//
// Oracle:
//  1. per delivery: a RecvMsg handed to call Y while Y's last announcement is
//     Opened(e) must have been submitted under epoch e (never a message of an older
//     epoch in a later one), by Y's session partner.
//  2. at quiescence (nothing in transit, nothing parked): if both peers have a running
//     call, each call's last announcement is Opened(e) with e equal to the relay's
//     current epoch (cross-checked through the verif accessor); if only one has, its
//     last announcement is Closed or nothing.
//  3. at the end, with both attached: a probe message sent by each side under its
//     announced epoch reaches the partner (the announced epoch really is current).
type c22World struct {
	rw       *sig.RawWorld
	attaches int
	maxAtt   int
	msgN     int
	resets   int
	maxReset int
	probed   bool
	probes   []*sig.RawMsg
	viol     *dsim.Violation
	ensured  bool
}

func init() {
	register(&Spec{
		ID: "C22", World: "SIG",
		New:        func() dsim.World { return &c22World{} },
		Cfg:        defaultCfg,
		Real:       []string{"signaling/rpc/server.Server.Session (registration, cleanup, send/ack/clear handlers, write loop)", "peer.SignedMsg verification"},
		Stub:       []string{"scripted raw Session streams in place of clients", "srpc transport replaced by simulator-owned message streams", "stream identity callback"},
		FaultKinds: []string{"fault:stream-reset", "fault:clock-jump", "fault:usurp"},
	})
}

func (w *c22World) Setup(s *dsim.Sim) {
	w.rw = sig.NewRawWorld(s, []string{"A", "B"})
	t := s.Tape
	arm := []int{0, 40, 70, 100}[t.Draw(4, "arm-pct")]
	s.ArmFraction(arm, []string{"sigsrv/"})
	w.maxAtt = 2 + t.Draw(5, "max-attach")
	w.maxReset = t.Draw(3, "max-resets")
	w.rw.OnRecv = func(c *sig.RawCall, payload string, m *signaling.SessionMsg) {
		s.Count("done:relay-delivery")
		rm := w.rw.Msgs[payload]
		if rm == nil {
			w.fail(&dsim.Violation{Property: "C22", Rule: "delivered-unknown-message", Witness: "not-submitted", Detail: fmt.Sprintf("call %s got %q which nobody submitted", c.St.Name, payload)})
			return
		}
		if rm.From != c.To.Name || rm.To != c.P.Name {
			w.fail(&dsim.Violation{Property: "C22", Rule: "delivered-to-wrong-peer", Witness: "cross-session", Detail: fmt.Sprintf("call %s got %q submitted %s->%s", c.St.Name, payload, rm.From, rm.To)})
			return
		}
		if c.Ann != "open" {
			w.fail(&dsim.Violation{Property: "C22", Rule: "delivery-without-open", Witness: "recv-before-opened",
				Detail: fmt.Sprintf("call %s was handed %q while its last announcement is %q (announcements so far %v)", c.St.Name, payload, c.Ann, c.Anns)})
			return
		}
		if c.AnnE != rm.Epoch {
			w.fail(&dsim.Violation{Property: "C22", Rule: "cross-epoch-delivery", Witness: "submitted-epoch!=announced-epoch",
				Detail: fmt.Sprintf("call %s (announced epoch %d) was handed %q which was submitted under epoch %d", c.St.Name, c.AnnE, payload, rm.Epoch)})
		}
	}
}

func (w *c22World) fail(v *dsim.Violation) {
	if w.viol == nil {
		w.viol = v
	}
}

func (w *c22World) liveCalls(p string) []*sig.RawCall {
	var out []*sig.RawCall
	for _, c := range w.rw.Calls {
		if c.P.Name == p && c.Live() {
			out = append(out, c)
		}
	}
	return out
}

func other(p string) string {
	if p == "A" {
		return "B"
	}
	return "A"
}

func (w *c22World) Actions(s *dsim.Sim, add func(dsim.Action)) {
	w.rw.Net.DeliveryActions(add)
	if s.Phase == dsim.PhaseStable {
		// stabilisation: make sure both sides end up attached, then probe once idle
		if !w.rw.Idle() || s.ParkedCount() > 0 {
			return
		}
		if !w.ensured {
			for _, p := range []string{"A", "B"} {
				if len(w.rw.Running(p, other(p))) == 0 && len(w.liveCalls(p)) == 0 {
					p := p
					add(dsim.Action{Name: "3op:attach:" + p, Weight: 5, Fire: func() { w.attaches++; w.rw.Attach(p, other(p)) }})
					return
				}
			}
			w.ensured = true
		}
		if !w.probed {
			ra, rb := w.rw.Running("A", "B"), w.rw.Running("B", "A")
			if len(ra) == 1 && len(rb) == 1 && ra[0].Ann == "open" && rb[0].Ann == "open" {
				add(dsim.Action{Name: "3op:probe", Weight: 5, Fire: func() {
					w.probed = true
					w.probes = append(w.probes, ra[0].SendMsg(ra[0].AnnE, "probe-A"), rb[0].SendMsg(rb[0].AnnE, "probe-B"))
				}})
			}
		}
		return
	}
	for _, p := range []string{"A", "B"} {
		p := p
		live := w.liveCalls(p)
		if w.attaches < w.maxAtt && len(live) < 2 {
			add(dsim.Action{Name: "3op:attach:" + p, Weight: 5, Fire: func() {
				w.attaches++
				if len(w.rw.Running(p, other(p))) > 0 {
					s.Count("fault:usurp")
				}
				w.rw.Attach(p, other(p))
			}})
		}
		for _, c := range live {
			c := c
			add(dsim.Action{Name: "3op:close:" + c.St.Name, Weight: 2, Fire: func() { c.Close() }})
			if c.Ann == "open" && w.msgN < 12 {
				add(dsim.Action{Name: "3op:send:" + c.St.Name, Weight: 5, Fire: func() {
					w.msgN++
					c.SendMsg(c.AnnE, fmt.Sprintf("m%d-%s", w.msgN, p))
				}})
			}
			if c.Unacked != nil && c.Ann == "open" {
				add(dsim.Action{Name: "3op:ack:" + c.St.Name, Weight: 4, Fire: func() {
					c.Ack(c.AnnE, c.Unacked.Seq)
					c.Unacked = nil
				}})
			}
			if c.LastOut != nil && c.Ann == "open" {
				add(dsim.Action{Name: "3op:clear:" + c.St.Name, Weight: 1, Fire: func() {
					c.Clear(c.AnnE, c.LastOut.Seq)
					c.LastOut = nil
				}})
			}
		}
	}
	if w.resets < w.maxReset {
		w.rw.Net.ResetActions(func(a dsim.Action) {
			f := a.Fire
			a.Fire = func() { w.resets++; f() }
			add(a)
		}, 1, nil)
	}
}

// quiescentCheck is rule 2.
func (w *c22World) quiescentCheck(s *dsim.Sim) *dsim.Violation {
	if !w.rw.Idle() || s.ParkedCount() > 0 {
		return nil
	}
	ra, rb := w.rw.Running("A", "B"), w.rw.Running("B", "A")
	if len(ra) > 1 || len(rb) > 1 {
		return &dsim.Violation{Property: "C22", Rule: "two-running-calls-at-quiescence", Witness: "usurped-call-not-ended",
			Detail: fmt.Sprintf("running calls at quiescence: A=%d B=%d", len(ra), len(rb))}
	}
	_, sessions := w.rw.Net.Server.VerifState()
	var seqno uint64
	attached := 0
	for _, ss := range sessions {
		seqno = ss.Seqno
		if ss.AttachedA {
			attached++
		}
		if ss.AttachedB {
			attached++
		}
	}
	if attached != len(ra)+len(rb) {
		return &dsim.Violation{Property: "C22", Rule: "relay-attachment-mismatch", Witness: "attached!=running",
			Detail: fmt.Sprintf("relay has %d attached trackers, %d handlers are running", attached, len(ra)+len(rb))}
	}
	s.NoteState(dsim.Mix(uint64(len(ra)), uint64(len(rb)), seqno, uint64(len(w.rw.Calls))))
	if len(ra) == 1 && len(rb) == 1 {
		s.Count("probe:both-attached-quiescent")
		for _, c := range []*sig.RawCall{ra[0], rb[0]} {
			if c.Ann != "open" {
				return &dsim.Violation{Property: "C22", Rule: "attached-peer-not-told-open", Witness: "last-announcement=" + annClass(c.Ann),
					Detail: fmt.Sprintf("both peers attached (relay epoch %d) but call %s was last told %q (announcements %v)", seqno, c.St.Name, c.Ann, c.Anns)}
			}
			if c.AnnE != seqno {
				return &dsim.Violation{Property: "C22", Rule: "attached-peer-holds-stale-epoch", Witness: "announced-epoch<relay-epoch",
					Detail: fmt.Sprintf("both peers attached, relay epoch %d, but call %s was last told Opened(%d) (announcements %v)", seqno, c.St.Name, c.AnnE, c.Anns)}
			}
		}
	} else {
		for _, c := range append(ra, rb...) {
			if c.Ann == "open" {
				return &dsim.Violation{Property: "C22", Rule: "lone-peer-not-told-closed", Witness: "last-announcement=open",
					Detail: fmt.Sprintf("only %s is attached but its call %s was last told Opened(%d) (announcements %v)", c.P.Name, c.St.Name, c.AnnE, c.Anns)}
			}
		}
	}
	return nil
}

func annClass(a string) string {
	if a == "" {
		return "none"
	}
	return a
}

func (w *c22World) Invariant(s *dsim.Sim) *dsim.Violation {
	if w.viol != nil {
		return w.viol
	}
	return w.quiescentCheck(s)
}

func (w *c22World) Done(s *dsim.Sim) bool {
	if !w.probed {
		return false
	}
	for _, p := range w.probes {
		if p.Delivered == 0 {
			return false
		}
	}
	return true
}

func (w *c22World) Final(s *dsim.Sim, stuck bool) *dsim.Violation {
	if w.viol != nil {
		return w.viol
	}
	if v := w.quiescentCheck(s); v != nil {
		return v
	}
	if !w.probed {
		ra, rb := w.rw.Running("A", "B"), w.rw.Running("B", "A")
		s.Inconclusive = fmt.Sprintf("harness: could not reach the both-attached state: running A=%d B=%d", len(ra), len(rb))
		return nil
	}
	for _, p := range w.probes {
		if p.Delivered == 0 {
			return &dsim.Violation{Property: "C22", Rule: "probe-under-announced-epoch-dropped", Witness: "silent-stale-drop",
				Detail: fmt.Sprintf("both attached and quiescent; %s submitted %q under its announced epoch %d and the relay never delivered it", p.From, p.Payload, p.Epoch)}
		}
	}
	s.Count("done:probe-pair")
	return nil
}

func (w *c22World) Teardown(s *dsim.Sim) { w.rw.Teardown() }
