package props

import (
	"bytes"
	"context"
	"errors"
	"fmt"
	"io"

	"github.com/aperturerobotics/bifrost/util/rwc"

	"verif/sim/dsim"
)

// C09: the buffered connection never silently loses or reorders bytes.
//
// World BYTES: a real rwc.Conn on each end of a simulator-owned duplex byte stream.
// Writes of 0 … 8 KiB through Conn.Write (the underlying writer may accept only part of
// a write per call), reads through Conn.Read with buffers of 1 … 4096 bytes racing the
// rx pump; per-run queue depth; chunked delivery; EOF or reset at arbitrary offsets;
// final data returned together with the terminal error by the underlying reader.
//
// Oracle (byte cursor; the pipe logs every underlying read as (offset, n) = one pump
// chunk, and each successful Conn.Read consumes exactly one chunk): the k-th Conn.Read
// returns the first min(len(buf), n_k) bytes of chunk k, with io.ErrShortBuffer exactly
// when len(buf) < n_k (the rest of that chunk is the only data ever discarded); chunks
// are consumed in order; after the stream ended and every chunk was consumed Read reports
// the underlying error or io.EOF; all bytes written before a clean close are read.
type c09World struct {
	s      *dsim.Sim
	ends   [2]*dsim.ByteEnd
	conns  [2]*rwc.Conn
	dirs   [2]*c09Dir
	ctx    context.Context
	cancel context.CancelFunc
	viol   *dsim.Violation
	ops    int
	maxOps int
}

type c09Dir struct {
	name     string
	pipe     *dsim.ByteDir
	written  int // bytes handed to Conn.Write and accepted
	reads    int // successful Conn.Read calls
	ended    bool
	endErr   error
	closed   bool
	reset    bool
	bufSizes []int
	skipped  int
	gotBytes int
}

func init() {
	register(&Spec{
		ID: "C09", World: "BYTES",
		New:        func() dsim.World { return &c09World{} },
		Cfg:        dsim.Config{MaxChaosSteps: 150, MaxStableSteps: 8000, Horizon: defaultCfg.Horizon},
		Real:       []string{"util/rwc.Conn (Write, rxPump, Read)"},
		Stub:       []string{"the underlying io.ReadWriteCloser is a simulator-owned byte stream with driver-chosen chunking"},
		FaultKinds: []string{"fault:chunking", "fault:short-write", "fault:short-buffer", "fault:eof", "fault:reset", "fault:err-with-data"},
	})
}

func (w *c09World) fail(v *dsim.Violation) {
	if w.viol == nil {
		w.viol = v
	}
}

func (w *c09World) Setup(s *dsim.Sim) {
	w.s = s
	t := s.Tape
	w.ctx, w.cancel = context.WithCancel(context.Background())
	w.maxOps = 3 + t.Draw(20, "max-ops")
	depth := 1 + t.Draw(10, "depth")
	a, b := dsim.NewBytePair("bs")
	w.ends = [2]*dsim.ByteEnd{a, b}
	w.dirs[0] = &c09Dir{name: "0>1", pipe: a.W}
	w.dirs[1] = &c09Dir{name: "1>0", pipe: b.W}
	for _, d := range w.dirs {
		if t.Bool(1, 3, "err-with-data") {
			d.pipe.ErrWithData = true
		}
		if t.Bool(1, 3, "max-read") {
			d.pipe.MaxRead = 1 + t.Draw(300, "max-read-n")
		}
		if t.Bool(1, 3, "short-write") {
			d.pipe.ShortWrite = 1 + t.Draw(700, "short-write-n")
		}
		for k := 0; k < 64; k++ {
			sz := 4096
			switch t.Draw(6, "buf-kind") {
			case 0:
				sz = 1
			case 1:
				sz = 1 + t.Draw(64, "buf")
			case 2:
				sz = 1 + t.Draw(4096, "buf")
			case 3:
				sz = 2048
			}
			d.bufSizes = append(d.bufSizes, sz)
		}
	}
	w.conns[0] = rwc.NewConn(w.ctx, a, c08Addr("a"), c08Addr("b"), depth)
	w.conns[1] = rwc.NewConn(w.ctx, b, c08Addr("b"), c08Addr("a"), depth)
	for i := 0; i < 2; i++ {
		w.startReader(i)
	}
}

func (w *c09World) startReader(i int) {
	d := w.dirs[1-i]
	s := w.s
	go func() {
		for k := 0; ; k++ {
			buf := make([]byte, d.bufSizes[k%len(d.bufSizes)])
			n, err := w.conns[i].Read(buf)
			if err != nil && !errors.Is(err, io.ErrShortBuffer) {
				if n != 0 {
					w.fail(&dsim.Violation{Property: "C09", Rule: "data-with-terminal-error", Witness: "n>0",
						Detail: fmt.Sprintf("%s: Conn.Read returned n=%d together with %v", d.name, n, err)})
				}
				d.ended, d.endErr = true, err
				s.Logf("reader %s ended after %d reads: %v", d.name, d.reads, err)
				w.checkEnd(d)
				return
			}
			w.checkRead(d, buf, n, err)
			if w.viol != nil {
				return
			}
		}
	}()
}

func (w *c09World) checkRead(d *c09Dir, buf []byte, n int, err error) {
	k := d.reads
	d.reads++
	log := d.pipe.ReadLog
	if k >= len(log) {
		w.fail(&dsim.Violation{Property: "C09", Rule: "read-without-chunk", Witness: "extra-read",
			Detail: fmt.Sprintf("%s: Conn.Read #%d returned %d bytes but the pump only performed %d underlying reads", d.name, k, n, len(log))})
		return
	}
	off, cn := log[k][0], log[k][1]
	want := d.pipe.All[off : off+cn]
	if len(buf) < cn {
		w.s.Count("fault:short-buffer")
		if !errors.Is(err, io.ErrShortBuffer) || n != len(buf) {
			w.fail(&dsim.Violation{Property: "C09", Rule: "silent-discard", Witness: "short-buffer-not-reported",
				Detail: fmt.Sprintf("%s: read #%d: chunk of %d bytes at offset %d, buffer %d: returned n=%d err=%v", d.name, k, cn, off, len(buf), n, err)})
			return
		}
		if !bytes.Equal(buf[:n], want[:n]) {
			w.fail(&dsim.Violation{Property: "C09", Rule: "wrong-bytes", Witness: "short-buffer",
				Detail: fmt.Sprintf("%s: read #%d: expected bytes at offset %d", d.name, k, off)})
		}
		d.skipped += cn - n
		d.gotBytes += n
		w.s.Count("done:read")
		return
	}
	if err != nil {
		w.fail(&dsim.Violation{Property: "C09", Rule: "spurious-short-buffer", Witness: "buffer-large-enough",
			Detail: fmt.Sprintf("%s: read #%d: chunk %d bytes, buffer %d, err=%v", d.name, k, cn, len(buf), err)})
		return
	}
	if n != cn || !bytes.Equal(buf[:n], want) {
		kind := "content"
		if n != cn {
			kind = "length"
		}
		w.fail(&dsim.Violation{Property: "C09", Rule: "wrong-bytes", Witness: kind,
			Detail: fmt.Sprintf("%s: read #%d returned %d bytes %x…; the next unread bytes are %d bytes at offset %d %x…", d.name, k, n, head(buf[:n]), cn, off, head(want))})
		return
	}
	d.gotBytes += n
	w.s.Count("done:read")
}

func (w *c09World) checkEnd(d *c09Dir) {
	if w.ctx.Err() != nil {
		return
	}
	if !d.closed && !d.reset {
		w.fail(&dsim.Violation{Property: "C09", Rule: "spurious-connection-error", Witness: "intact-stream",
			Detail: fmt.Sprintf("%s: Conn.Read failed with %v after %d reads although the stream is intact", d.name, d.endErr, d.reads)})
		return
	}
	if d.closed && !d.reset {
		if !errors.Is(d.endErr, io.EOF) {
			w.fail(&dsim.Violation{Property: "C09", Rule: "wrong-terminal-error", Witness: "clean-close",
				Detail: fmt.Sprintf("%s: stream ended cleanly but Conn.Read reported %v", d.name, d.endErr)})
			return
		}
		// every chunk must have been consumed before EOF is reported
		if d.reads != len(d.pipe.ReadLog) {
			w.fail(&dsim.Violation{Property: "C09", Rule: "bytes-lost-at-eof", Witness: "unconsumed-chunks",
				Detail: fmt.Sprintf("%s: EOF reported after %d reads but the pump read %d chunks", d.name, d.reads, len(d.pipe.ReadLog))})
			return
		}
		if d.gotBytes+d.skipped != d.written {
			w.fail(&dsim.Violation{Property: "C09", Rule: "bytes-lost-at-eof", Witness: "byte-count",
				Detail: fmt.Sprintf("%s: %d bytes written, %d read + %d discarded by reported short buffers", d.name, d.written, d.gotBytes, d.skipped)})
		}
		return
	}
	if d.reset && !errors.Is(d.endErr, dsim.ErrByteReset) {
		w.fail(&dsim.Violation{Property: "C09", Rule: "wrong-terminal-error", Witness: "reset",
			Detail: fmt.Sprintf("%s: stream was reset but Conn.Read reported %v", d.name, d.endErr)})
	}
}

func (w *c09World) Actions(s *dsim.Sim, add func(dsim.Action)) {
	for _, d := range w.dirs {
		if a, ok := d.pipe.DeliverAction(s); ok {
			add(a)
		}
	}
	if s.Phase == dsim.PhaseStable || w.ops >= w.maxOps {
		return
	}
	for i, d := range w.dirs {
		i, d := i, d
		if d.closed || d.reset {
			continue
		}
		add(dsim.Action{Name: "3op:write:" + d.name, Weight: 8, Fire: func() {
			w.ops++
			var n int
			switch s.Tape.Draw(6, "wsize-kind") {
			case 0:
				n = 0
			case 1:
				n = 1
			case 2:
				n = 2048
			case 3:
				n = 2049
			default:
				n = 1 + s.Tape.Draw(8192, "wsize")
			}
			p := make([]byte, n)
			x := uint64(d.written)*0x9e3779b97f4a7c15 + 7
			for j := range p {
				x = x*6364136223846793005 + 1442695040888963407
				p[j] = byte(x >> 56)
			}
			before := len(d.pipe.All)
			wn, err := w.conns[i].Write(p)
			if d.pipe.ShortWrite > 0 && n > d.pipe.ShortWrite {
				s.Count("fault:short-write")
			}
			s.Logf("write %s %d bytes -> n=%d err=%v", d.name, n, wn, err)
			if err == nil && wn != n {
				w.fail(&dsim.Violation{Property: "C09", Rule: "write-short-without-error", Witness: "n<len",
					Detail: fmt.Sprintf("%s: Write(%d bytes) returned n=%d, nil", d.name, n, wn)})
			}
			if err == nil && !bytes.Equal(d.pipe.All[before:], p) {
				w.fail(&dsim.Violation{Property: "C09", Rule: "write-garbled", Witness: "underlying-bytes-differ",
					Detail: fmt.Sprintf("%s: Write(%d bytes) put %d bytes on the wire that differ from the argument", d.name, n, len(d.pipe.All)-before)})
			}
			d.written = len(d.pipe.All)
		}})
		add(dsim.Action{Name: "5flt:eof:" + d.name, Weight: 1, Fault: true, Fire: func() {
			w.ops++
			s.Count("fault:eof")
			if d.pipe.ErrWithData {
				s.Count("fault:err-with-data")
			}
			d.closed = true
			d.pipe.CloseWrite()
		}})
		add(dsim.Action{Name: "5flt:reset:" + d.name, Weight: 1, Fault: true, Fire: func() {
			w.ops++
			s.Count("fault:reset")
			d.reset = true
			d.pipe.Reset(dsim.ErrByteReset)
		}})
	}
}

func (w *c09World) Invariant(s *dsim.Sim) *dsim.Violation { return w.viol }
func (w *c09World) Done(s *dsim.Sim) bool                 { return true }

func (w *c09World) Final(s *dsim.Sim, stuck bool) *dsim.Violation {
	if w.viol != nil {
		return w.viol
	}
	for _, d := range w.dirs {
		if d.reset {
			continue
		}
		// at quiescence everything written has been pumped and read
		if d.gotBytes+d.skipped != d.written {
			return &dsim.Violation{Property: "C09", Rule: "bytes-lost", Witness: "quiescent-byte-count",
				Detail: fmt.Sprintf("%s: %d bytes written, %d read + %d discarded by reported short buffers at quiescence (reads=%d chunks=%d)", d.name, d.written, d.gotBytes, d.skipped, d.reads, len(d.pipe.ReadLog))}
		}
		if d.closed && !d.ended {
			return &dsim.Violation{Property: "C09", Rule: "eof-not-reported", Witness: "clean-close",
				Detail: fmt.Sprintf("%s: the stream ended but Conn.Read never reported it", d.name)}
		}
	}
	return nil
}

func (w *c09World) Teardown(s *dsim.Sim) {
	w.cancel()
	for _, e := range w.ends {
		e.W.Reset(dsim.ErrByteReset)
		e.R.Reset(dsim.ErrByteReset)
	}
}
