package props

import (
	"context"
	"fmt"
	"os"
	"time"

	"github.com/aperturerobotics/bifrost/hash"
	"github.com/aperturerobotics/bifrost/link"
	"github.com/aperturerobotics/bifrost/peer"
	"github.com/aperturerobotics/bifrost/pubsub"
	pubsub_controller "github.com/aperturerobotics/bifrost/pubsub/controller"
	"github.com/aperturerobotics/bifrost/pubsub/floodsub"
	pubmessage "github.com/aperturerobotics/bifrost/pubsub/util/pubmessage"
	"github.com/aperturerobotics/controllerbus/controller"
	"github.com/blang/semver/v4"
	"github.com/sirupsen/logrus"

	"verif/sim/dsim"
	"verif/sim/worlds/fsub"
	"verif/sim/worlds/node"
)

// C29: pubsub streams are opened once per link and subscriptions end cleanly.
//
// Two scenario variants, chosen per run:
//
// "links" (NODE world, two full nodes): each node is a real bus with peer controller,
// real transport controller over a simlink transport and the real pubsub controller
// driving a real FloodSub. Links between the two nodes are established, fail and are
// re-established (same or new UUID). Oracle: for every link pair the pubsub stream is
// opened by exactly one of the two sides (OpenStream calls for the pubsub protocol
// counted at the stub: one side > 0, the other == 0) once the link is quiescent.
//
// "subs" (floodsub level): one real FloodSub router with a scripted peer that observes
// the subscription announcements. Subscriptions on 1-2 channels are added, handlers
// added and removed, subscriptions released while honest traffic for those channels is
// in flight; the per-subscription delivery goroutine and Release park at armed points.
// Oracle: no handler is invoked after its remove function or the subscription's Release
// has returned; at quiescence, for every channel the peer was told Subscribe=true the
// last announcement is Subscribe=false iff no local subscription to it remains.
type c29World struct {
	s       *dsim.Sim
	variant string
	viol    *dsim.Violation
	ops     int
	maxOps  int
	// links variant
	net       *node.Net
	n1, n2    *node.Node
	t1, t2    *node.TC
	ps1, ps2  *pubsub_controller.Controller
	pairs     [][2]*node.SimLink
	uuid      uint64
	got       map[string]int
	pubN      int
	subs      [2]pubsub.Subscription
	finalSent bool
	finalData string
	idleSince time.Duration
	// subs variant
	fw         *fsub.World
	v          *fsub.FNode
	h          *fsub.Script
	recs       []*c29Sub
	n          int
	reconnects int
	slowPeer   bool
	bursts     int
	pendingApp int
}

type c29Sub struct {
	sr       *fsub.SubRec
	released bool // Release returned
	relBusy  bool
	extra    []*c29Handler
}

type c29Handler struct {
	remove   func()
	removed  bool // remove returned
	after    int
	got      int
	removing bool
}

func init() {
	register(&Spec{
		ID: "C29", World: "NODE",
		New:        func() dsim.World { return &c29World{} },
		Cfg:        dsim.Config{MaxChaosSteps: 140, MaxStableSteps: 20000, Horizon: 20 * time.Second},
		Real:       []string{"pubsub/controller.Controller (link tracking, trackLink opener choice, HandleMountedStream for the pubsub protocol)", "pubsub/floodsub.FloodSub (subscriptions, handlers, Release, unsubscribe announcements)", "transport/controller.Controller, controllerbus, peer controller (links variant)"},
		Stub:       []string{"simlink transports between the two nodes (links variant)", "scripted peer observing subscription announcements (subs variant)", "go-cache janitor not started"},
		FaultKinds: []string{"fault:link-fail", "fault:link-reestablished-same-uuid", "fault:peer-stops-reading", "fault:publish-burst", "fault:release-racing-delivery", "fault:handler-removed-racing-delivery", "fault:peer-reconnect-same-tuple", "fault:chunking", "fault:clock-jump"},
	})
}

func (w *c29World) fail(v *dsim.Violation) {
	if w.viol == nil {
		w.viol = v
	}
}

func (w *c29World) Setup(s *dsim.Sim) {
	w.s = s
	t := s.Tape
	w.variant = []string{"subs", "links"}[t.Draw(2, "variant")]
	w.maxOps = 3 + t.Draw(14, "max-ops")
	if w.variant == "subs" {
		w.setupSubs()
		return
	}
	w.setupLinks()
}

// ---- links variant -------------------------------------------------------------

func (w *c29World) addPubSub(nd *node.Node, name string) *pubsub_controller.Controller {
	info := controller.NewInfo("verif/pubsub/"+name, semver.MustParse("0.0.1"), "pubsub "+name)
	ctor := func(ctx context.Context, le *logrus.Entry, p peer.Peer, handler pubsub.PubSubHandler) (pubsub.PubSub, error) {
		return floodsub.NewFloodSub(ctx, le, handler, &floodsub.Config{})
	}
	c := pubsub_controller.NewController(w.net.Log, nd.Bus, info, nd.P.ID, floodsub.FloodSubID, ctor)
	nd.AddController(c)
	return c
}

func (w *c29World) setupLinks() {
	s := w.s
	w.net = node.NewNet(s)
	w.n1 = w.net.AddNode("N1", "S1")
	w.n2 = w.net.AddNode("N2", "S2")
	w.t1 = w.n1.AddTransport("t1", "S1")
	w.t2 = w.n2.AddTransport("t2", "S2")
	w.ps1 = w.addPubSub(w.n1, "1")
	w.ps2 = w.addPubSub(w.n2, "2")
	w.got = map[string]int{}
	// hold the links from both sides
	_, _, _ = w.n1.Bus.AddDirective(link.NewEstablishLinkWithPeer(w.t1.P.ID, w.t2.P.ID), nil)
	_, _, _ = w.n2.Bus.AddDirective(link.NewEstablishLinkWithPeer(w.t2.P.ID, w.t1.P.ID), nil)
	for i, c := range []*pubsub_controller.Controller{w.ps1, w.ps2} {
		ps, err := c.GetPubSub(context.Background())
		if err != nil {
			panic(err)
		}
		nd := []*node.Node{w.n1, w.n2}[i]
		sub, err := ps.AddSubscription(context.Background(), nd.P.Priv, "chan")
		if err != nil {
			panic(err)
		}
		name := nd.Name
		sub.AddHandler(func(m pubsub.Message) {
			w.got[name+":"+string(m.GetData())]++
			s.Logf("deliver %s %q", name, m.GetData())
			s.Count("done:delivery")
		})
		w.subs[i] = sub
	}
	w.uuid = 500
	// goroutine starts of the pubsub controller (link trackers) and of the router are
	// scheduling points: a tracker may still be starting when its link goes and comes back
	s.ArmFraction([]int{100, 50, 0}[s.Tape.Draw(3, "arm-pct")], []string{"go:pubsub/controller/", "go:pubsub/floodsub/"})
	w.establish(false)
}

func (w *c29World) establish(sameUUID bool) {
	if !sameUUID {
		w.uuid++
	}
	la, lb := w.net.NewLinkPair(w.t1.Tpt, w.t2.Tpt, fmt.Sprintf("P%d", len(w.pairs)), w.uuid)
	w.pairs = append(w.pairs, [2]*node.SimLink{la, lb})
	la.ReportEstablished()
	lb.ReportEstablished()
}

func (w *c29World) lastPairLive() bool {
	p := w.pairs[len(w.pairs)-1]
	return !p[0].IsClosed() && !p[1].IsClosed()
}

func (w *c29World) actionsLinks(s *dsim.Sim, add func(dsim.Action)) {
	w.net.Actions(add)
	if s.Phase == dsim.PhaseStable {
		if !w.net.Idle() || s.ParkedCount() > 0 {
			w.idleSince = 0
			return
		}
		if w.idleSince == 0 {
			w.idleSince = s.Now() + 1
			return
		}
		if s.Now()-w.idleSince < 2*time.Second {
			return
		}
		if !w.lastPairLive() {
			add(dsim.Action{Name: "3op:establish", Fire: func() { w.idleSince = 0; w.establish(false) }})
			return
		}
		if !w.finalSent {
			add(dsim.Action{Name: "3op:final-publish", Fire: func() {
				w.finalSent = true
				w.idleSince = 0
				w.finalData = "final-from-N1"
				go func() { _ = w.subs[0].Publish([]byte(w.finalData)) }()
			}})
		}
		return
	}
	if w.ops >= w.maxOps {
		return
	}
	if w.lastPairLive() {
		add(dsim.Action{Name: "5flt:link-fail", Weight: 2, Fault: true, Fire: func() {
			w.ops++
			s.Count("fault:link-fail")
			w.pairs[len(w.pairs)-1][0].Fail()
		}})
		add(dsim.Action{Name: "3op:publish", Weight: 3, Fire: func() {
			w.ops++
			w.pubN++
			i := s.Tape.Draw(2, "publisher")
			d := fmt.Sprintf("p%d", w.pubN)
			go func() { _ = w.subs[i].Publish([]byte(d)) }()
		}})
	} else {
		p := w.pairs[len(w.pairs)-1]
		if p[0].IsClosed() && p[1].IsClosed() {
			add(dsim.Action{Name: "3op:re-establish", Weight: 5, Fire: func() {
				w.ops++
				same := s.Tape.Bool(1, 2, "same-uuid")
				if same {
					s.Count("fault:link-reestablished-same-uuid")
				}
				w.establish(same)
			}})
		}
	}
}

func (w *c29World) finalLinks(s *dsim.Sim) *dsim.Violation {
	for i, p := range w.pairs {
		a, b := p[0].OpenedStreams, p[1].OpenedStreams
		if a > 0 && b > 0 {
			return &dsim.Violation{Property: "C29", Rule: "both-sides-opened-pubsub-stream", Witness: "opened-on-both-ends",
				Detail: fmt.Sprintf("link pair #%d (uuid %d): side S1 opened %d pubsub streams, side S2 opened %d", i, p[0].UUID, a, b)}
		}
		live := !p[0].IsClosed() && !p[1].IsClosed()
		if live && a == 0 && b == 0 {
			return &dsim.Violation{Property: "C29", Rule: "no-side-opened-pubsub-stream", Witness: "live-link-without-stream",
				Detail: fmt.Sprintf("link pair #%d (uuid %d) is live and quiescent but neither side opened the pubsub stream", i, p[0].UUID)}
		}
	}
	if w.finalSent && w.got["N2:"+w.finalData] == 1 {
		// end-to-end sanity only (not part of the property: a pubsub stream whose header the
		// driver stalled beyond the establish deadline is legitimately dead)
		s.Count("done:final-probe")
	}
	return nil
}

// ---- subs variant --------------------------------------------------------------

func (w *c29World) setupSubs() {
	s := w.s
	t := s.Tape
	w.fw = fsub.New(s)
	w.v = w.fw.AddNode("V")
	w.h = w.fw.ConnectScript(w.v, "H", 0)
	w.h.WantChannels(true, "c1", "c2")
	// in some runs the peer is slow: the router's stream to it has a small flow-control
	// window and the peer may stop reading for a while (back-pressure up to the router's
	// per-peer queue), while the local application publishes in bursts
	w.slowPeer = t.Bool(1, 2, "slow-peer")
	if w.slowPeer {
		w.h.End.C.A.Strm.End().W.Window = 256
	}
	s.ArmFraction([]int{100, 100, 50, 0}[t.Draw(4, "arm-pct")], []string{"floodsub/deliver", "floodsub/release", "floodsub/handle-valid", "floodsub/handle-publish", "floodsub/hold-break", "harness/stream-close", "harness/handler", "go:pubsub/floodsub/", "go:pubsub/controller/"})
}

func (w *c29World) actionsSubs(s *dsim.Sim, add func(dsim.Action)) {
	if s.Phase == dsim.PhaseStable {
		// the peer reads again
		for _, c := range w.fw.Conns {
			c.A.Strm.End().W.Stalled = false
		}
	}
	w.fw.Actions(add)
	if s.Phase == dsim.PhaseStable {
		// the router announces subscription changes on its 100 ms re-evaluation tick: demand
		// one second of fake time without traffic before the final check
		if !w.fw.Idle() || s.ParkedCount() > 0 {
			w.idleSince = 0
		} else if w.idleSince == 0 {
			w.idleSince = s.Now() + 1
		}
		return
	}
	if w.ops >= w.maxOps {
		return
	}
	t := s.Tape
	chs := []string{"c1", "c2"}
	if len(w.recs) < 5 {
		add(dsim.Action{Name: "3op:subscribe", Weight: 5, Fire: func() {
			w.ops++
			ch := chs[t.Draw(2, "ch")]
			// application calls run as their own tasks: a handler may be parked while it
			// holds the subscription lock, and the driver itself must never wait for a lock
			w.pendingApp++
			go func() {
				r := &c29Sub{sr: w.v.Subscribe(ch)}
				w.recs = append(w.recs, r)
				w.pendingApp--
			}()
		}})
	}
	for i, r := range w.recs {
		i, r := i, r
		if r.released || r.relBusy {
			continue
		}
		add(dsim.Action{Name: fmt.Sprintf("3op:release:%d", i), Weight: 3, Fire: func() {
			w.ops++
			if s.ParkedCount() > 0 || !w.fw.Idle() {
				s.Count("fault:release-racing-delivery")
			}
			r.relBusy = true
			go func() {
				r.sr.Sub.Release()
				r.sr.Released = true
				r.released = true
				r.relBusy = false
				s.Logf("released #%d", i)
			}()
		}})
		if len(r.extra) < 2 {
			add(dsim.Action{Name: fmt.Sprintf("3op:add-handler:%d", i), Weight: 2, Fire: func() {
				w.ops++
				h := &c29Handler{}
				r.extra = append(r.extra, h)
				w.pendingApp++
				go func() {
					h.remove = r.sr.Sub.AddHandler(func(m pubsub.Message) {
						s.Yield("harness/handler", fmt.Sprintf("extra%d", i))
						h.got++
						if h.removed || r.released {
							h.after++
						}
					})
					w.pendingApp--
				}()
			}})
		}
		for j, h := range r.extra {
			j, h := j, h
			if !h.removed && h.remove != nil && !h.removing {
				add(dsim.Action{Name: fmt.Sprintf("3op:remove-handler:%d.%d", i, j), Weight: 2, Fire: func() {
					w.ops++
					if s.ParkedCount() > 0 {
						s.Count("fault:handler-removed-racing-delivery")
					}
					h.removing = true
					go func() { h.remove(); h.removed = true }()
				}})
			}
		}
	}
	if w.slowPeer {
		dir := w.h.End.C.A.Strm.End().W
		if !dir.Stalled {
			add(dsim.Action{Name: "5flt:peer-stops-reading", Weight: 2, Fault: true, Fire: func() {
				w.ops++
				s.Count("fault:peer-stops-reading")
				dir.Stalled = true
			}})
		} else {
			add(dsim.Action{Name: "3op:peer-reads-again", Weight: 1, Fire: func() { w.ops++; dir.Stalled = false }})
		}
		if w.bursts < 2 {
			add(dsim.Action{Name: "3op:publish-burst", Weight: 3, Fire: func() {
				w.ops++
				w.bursts++
				ch := chs[t.Draw(2, "ch")]
				s.Count("fault:publish-burst")
				for k := 0; k < 40; k++ {
					w.n++
					d := fmt.Sprintf("b%d", w.n)
					go func() { _ = w.v.Publish(ch, d) }()
				}
			}})
		}
	}
	if w.reconnects < 2 {
		add(dsim.Action{Name: "5flt:peer-reconnects-same-tuple", Weight: 2, Fault: true, Fire: func() {
			// the peer re-opens its stream under the SAME (peer, link) tuple: the router
			// cancels the old session and starts a new one; announcements now go to the new one
			w.ops++
			w.reconnects++
			s.Count("fault:peer-reconnect-same-tuple")
			old := w.h
			old.End.C.Break() // the peer abandons its old stream, then opens the new one
			w.h = w.fw.ConnectScript(w.v, "H", old.End.C.LinkID)
			w.h.WantChannels(true, "c1", "c2")
		}})
	}
	add(dsim.Action{Name: "3op:traffic", Weight: 6, Fire: func() {
		w.ops++
		w.n++
		ch := chs[t.Draw(2, "ch")]
		sm, _, err := pubmessage.NewPubMessage(ch, w.h.P.Priv, hash.HashType_HashType_SHA256, []byte(fmt.Sprintf("t%d", w.n)))
		if err != nil {
			panic(err)
		}
		w.h.Send(&floodsub.Packet{Publish: []*peer.SignedMsg{sm}})
	}})
}

func (w *c29World) checkSubs(s *dsim.Sim, final bool) *dsim.Violation {
	if final && os.Getenv("DSIM_DEBUG") != "" {
		all := w.fw.Conns[0].A.Strm.End().W.All
		if len(all) > 700 {
			all = all[:700]
		}
		s.Logf("DEBUG wire %x", all)
	}
	for i, r := range w.recs {
		if r.sr.AfterRelease > 0 {
			return &dsim.Violation{Property: "C29", Rule: "handler-invoked-after-release", Witness: "subscription-release",
				Detail: fmt.Sprintf("subscription #%d on %s: its handler ran %d time(s) after Release had returned", i, r.sr.Channel, r.sr.AfterRelease)}
		}
		for j, h := range r.extra {
			if h.after > 0 {
				return &dsim.Violation{Property: "C29", Rule: "handler-invoked-after-release", Witness: "handler-remove",
					Detail: fmt.Sprintf("subscription #%d handler %d ran %d time(s) after its remove function (or Release) had returned", i, j, h.after)}
			}
		}
	}
	if !final {
		return nil
	}
	// announcements as seen by the peer
	last := map[string]bool{}
	told := map[string]bool{}
	// The peer reads one stream at a time: when it re-opens its stream it abandons the old
	// one first. If the router ended the peer's current stream (it may keep the other of
	// two streams that were opened in quick succession), the peer has no stream to be told
	// anything on; a real peer would reconnect. Nothing is demanded then.
	if w.h.Err != nil {
		s.Count("probe:peer-stream-ended-by-router")
		return nil
	}
	for _, so := range w.h.Subs {
		last[so.GetChannelId()] = so.GetSubscribe()
		if so.GetSubscribe() {
			told[so.GetChannelId()] = true
		}
	}
	for _, ch := range []string{"c1", "c2"} {
		remaining := 0
		for _, r := range w.recs {
			if r.sr.Channel == ch && !r.released {
				remaining++
			}
		}
		if told[ch] && remaining == 0 && last[ch] {
			return &dsim.Violation{Property: "C29", Rule: "unsubscribe-not-announced", Witness: "last-announcement=subscribe",
				Detail: fmt.Sprintf("every local subscription to %s was released but the peer's last announcement for it is Subscribe=true", ch)}
		}
		if remaining > 0 && !last[ch] {
			// the property speaks of the unsubscribe direction only; a missing Subscribe=true
			// is C28's business (reachability). Counted, not reported.
			s.Count("probe:subscribe-not-announced")
		}
	}
	s.Count("done:announcement-check")
	return nil
}

// ---- common -------------------------------------------------------------------

func (w *c29World) Actions(s *dsim.Sim, add func(dsim.Action)) {
	if w.variant == "subs" {
		w.actionsSubs(s, add)
	} else {
		w.actionsLinks(s, add)
	}
}

func (w *c29World) Invariant(s *dsim.Sim) *dsim.Violation {
	if w.viol != nil {
		return w.viol
	}
	if w.variant == "subs" {
		return w.checkSubs(s, false)
	}
	return nil
}

func (w *c29World) Done(s *dsim.Sim) bool {
	if w.variant == "subs" {
		for _, r := range w.recs {
			if r.relBusy {
				return false
			}
		}
		if w.pendingApp > 0 {
			return false
		}
		return w.idleSince != 0 && s.Now()-w.idleSince >= time.Second
	}
	return w.finalSent
}

func (w *c29World) Final(s *dsim.Sim, stuck bool) *dsim.Violation {
	if w.viol != nil {
		return w.viol
	}
	if w.variant == "subs" {
		return w.checkSubs(s, true)
	}
	return w.finalLinks(s)
}

func (w *c29World) Teardown(s *dsim.Sim) {
	if w.variant == "subs" {
		w.fw.Close()
		return
	}
	w.net.Close()
	for _, nd := range w.net.Nodes {
		nd.Shutdown()
	}
}
