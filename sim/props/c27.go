package props

import (
	"fmt"
	"time"

	"github.com/aperturerobotics/bifrost/hash"
	"github.com/aperturerobotics/bifrost/peer"
	"github.com/aperturerobotics/bifrost/pubsub/floodsub"
	pubmessage "github.com/aperturerobotics/bifrost/pubsub/util/pubmessage"

	"verif/sim/dsim"
	"verif/sim/worlds/fsub"
	"verif/sim/worlds/sig"
)

// C27: subscribers receive only authentic messages for their channel.
//
// World NODE/floodsub: one real FloodSub router V with subscriptions on 1-3 channels, an
// honest scripted downstream peer H (subscribed to every channel, including one V does
// not subscribe to, so that everything V forwards is observed) and a scripted malicious
// peer M. M sends Publish packets drawn from: honest (its own, genuinely signed), relayed
// honest messages of a third publisher P, tampered payload, channel field rewritten
// (re-targeted), signature by M's key claiming P, signature under a non-pubsub context,
// signature for channel Y with inner channel X, empty channel, valid message for a
// channel V does not subscribe to, bit-flipped frames; mixed with honest traffic from H.
//
// Ground truth never uses bifrost's verifier: the harness signs every honest message
// itself; pool = set of (sender, channel, payload) it signed with that sender's key under
// the pubsub context of that channel.
//
// Oracle: every handler callback on a subscription for channel c carries (from, data)
// with (from, c, data) in the pool; every Publish message V writes to H is in the pool
// and is for a channel V subscribes to.
type c27World struct {
	s       *dsim.Sim
	fw      *fsub.World
	v       *fsub.FNode
	h, m    *fsub.Script
	chans   []string // channels V subscribes to
	pool    map[string]bool
	ops     int
	maxOps  int
	n       int
	quick   int
	quickAt time.Duration
	injAt   map[string]time.Duration
	viol    *dsim.Violation
	kinds   map[string]string // data -> injected kind (diagnostics)
}

func init() {
	register(&Spec{
		ID: "C27", World: "NODE",
		New:        func() dsim.World { return &c27World{} },
		Cfg:        dsim.Config{MaxChaosSteps: 140, MaxStableSteps: 4000, Horizon: 5 * time.Second},
		Real:       []string{"pubsub/floodsub.FloodSub (AddPeerStream, Execute, stream handler read pump, handlePublish, handleValidMessage, execPublish, subscriptions)", "pubsub/util/pubmessage.ExtractAndVerify", "peer.SignedMsg verification", "stream/packet.Session framing"},
		Stub:       []string{"peers are scripted (one honest downstream, one malicious); streams are simulator-owned byte streams with chunked delivery", "go-cache janitor goroutine not started"},
		FaultKinds: []string{"fault:bare-context", "fault:batch-invalid-then-valid", "fault:prefix-channel-context", "fault:subscribe-then-release-at-once", "fault:tampered-data", "fault:retargeted-channel", "fault:foreign-signature", "fault:embedded-pubkey", "fault:same-signature-new-data", "fault:wrong-context", "fault:cross-channel-context", "fault:empty-channel", "fault:unsubscribed-channel", "fault:corrupt-frame", "fault:chunking", "fault:clock-jump"},
	})
}

func (w *c27World) fail(v *dsim.Violation) {
	if w.viol == nil {
		w.viol = v
	}
}

func key(from, ch, data string) string { return from + "|" + ch + "|" + data }

func (w *c27World) Setup(s *dsim.Sim) {
	w.s = s
	t := s.Tape
	w.fw = fsub.New(s)
	w.pool = map[string]bool{}
	w.kinds = map[string]string{}
	w.injAt = map[string]time.Duration{}
	w.v = w.fw.AddNode("V")
	all := []string{"chA", "chB", "chC"}
	w.chans = all[:1+t.Draw(3, "channels")]
	for _, c := range w.chans {
		w.v.Subscribe(c)
	}
	w.maxOps = 4 + t.Draw(24, "max-ops")
	w.fw.OnMsg = func(n *fsub.FNode, sub *fsub.SubRec, from peer.ID, data []byte) {
		fn := w.fw.Net.Names[from.String()]
		s.Count("done:handler-callback")
		if !w.pool[key(fn, sub.Channel, string(data))] {
			w.fail(&dsim.Violation{Property: "C27", Rule: "subscriber-got-non-authentic", Witness: w.kindOf(string(data)),
				Detail: fmt.Sprintf("subscription on %s was handed (from=%s, %q): no such message was signed by %s for that channel (injected kind: %s)", sub.Channel, fn, data, fn, w.kindOf(string(data)))})
		}
	}
	w.fw.OnScriptRecv = func(sc *fsub.Script, m *peer.SignedMsg) {
		if sc != w.h {
			return
		}
		s.Count("done:forwarded")
		inner := &pubmessage.PubMessageInner{}
		_ = inner.UnmarshalVT(m.GetData())
		from := ""
		if id, err := peer.IDB58Decode(m.GetFromPeerId()); err == nil {
			from = w.fw.Net.Names[id.String()]
		}
		data := string(inner.GetData())
		if !w.pool[key(from, inner.GetChannel(), data)] {
			w.fail(&dsim.Violation{Property: "C27", Rule: "forwarded-non-authentic", Witness: w.kindOf(data),
				Detail: fmt.Sprintf("V forwarded (from=%s, channel=%s, %q) to its downstream peer: not an authentic message (injected kind: %s)", from, inner.GetChannel(), data, w.kindOf(data))})
			return
		}
		sub := false
		for _, c := range w.chans {
			if c == inner.GetChannel() {
				sub = true
			}
		}
		if !sub && inner.GetChannel() == "chZ" && w.quick > 0 && w.injAt[data] < w.quickAt+300*time.Millisecond {
			// the router re-evaluates its subscriptions at most once every 100 ms: for that
			// long after the release the channel still counts as wanted (by design)
			s.Count("probe:forwarded-within-evaluation-window")
			sub = true
		}
		if !sub {
			w.fail(&dsim.Violation{Property: "C27", Rule: "forwarded-unsubscribed-channel", Witness: "channel-not-subscribed",
				Detail: fmt.Sprintf("V forwarded %q for channel %s which it does not subscribe to", data, inner.GetChannel())})
		}
	}
	w.h = w.fw.ConnectScript(w.v, "H", 0)
	w.m = w.fw.ConnectScript(w.v, "M", 0)
	w.h.WantChannels(true, "chA", "chB", "chC", "chZ")
	w.fw.Party("P")
	s.ArmFraction([]int{0, 50, 100}[t.Draw(3, "arm-pct")], []string{"floodsub/handle-publish", "floodsub/handle-valid", "floodsub/deliver", "floodsub/exec-publish", "go:pubsub/floodsub/", "cache/"})
}

func (w *c27World) kindOf(data string) string {
	if k, ok := w.kinds[data]; ok {
		return k
	}
	return "unknown"
}

// honest signs a genuine message of party `from` for channel ch and records it.
func (w *c27World) honest(from *sig.Party, ch string) *peer.SignedMsg {
	w.n++
	data := fmt.Sprintf("msg-%d-%s", w.n, from.Name)
	sm, _, err := pubmessage.NewPubMessage(ch, from.Priv, hash.HashType_HashType_SHA256, []byte(data))
	if err != nil {
		panic(err)
	}
	w.pool[key(from.Name, ch, data)] = true
	w.kinds[data] = "honest"
	return sm
}

var c27Kinds = []string{"honest", "honest", "relayed-honest", "tampered-data", "retargeted-channel", "foreign-signature", "embedded-pubkey", "same-signature-new-data", "wrong-context", "cross-channel-context", "empty-channel", "batch-invalid-then-valid", "bare-context", "prefix-channel-context", "unsubscribed-channel", "corrupt-frame"}

func (w *c27World) inject(kind string) {
	s := w.s
	t := s.Tape
	M, P := w.m.P, w.fw.Party("P")
	ch := w.chans[t.Draw(len(w.chans), "ch")]
	other := "chZ"
	if len(w.chans) > 1 {
		for _, c := range w.chans {
			if c != ch {
				other = c
			}
		}
	}
	mk := func(from *sig.Party, ctxCh, innerCh, data string, ctxOverride string) *peer.SignedMsg {
		inner := &pubmessage.PubMessageInner{Data: []byte(data), Channel: innerCh}
		ib, _ := inner.MarshalVT()
		ctx := "bifrost/pubsub/pubmessage 2024-06-05T02:38:47.55258Z channel/" + ctxCh
		if ctxOverride != "" {
			ctx = ctxOverride
		}
		sm, err := peer.NewSignedMsg(ctx, from.Priv, hash.HashType_HashType_SHA256, ib)
		if err != nil {
			panic(err)
		}
		return sm
	}
	w.n++
	tag := fmt.Sprintf("%s-%d", kind, w.n)
	w.kinds[tag] = kind
	if kind != "honest" && kind != "relayed-honest" {
		s.Count("fault:" + kind)
	}
	var sm *peer.SignedMsg
	switch kind {
	case "honest":
		sm = w.honest(M, ch)
	case "relayed-honest":
		sm = w.honest(P, ch)
	case "tampered-data":
		sm = w.honest(P, ch)
		inner := &pubmessage.PubMessageInner{}
		_ = inner.UnmarshalVT(sm.Data)
		inner.Data = []byte(tag)
		sm.Data, _ = inner.MarshalVT()
	case "retargeted-channel":
		// a genuine message for another channel, channel field rewritten to ch
		sm = w.honest(P, other)
		inner := &pubmessage.PubMessageInner{}
		_ = inner.UnmarshalVT(sm.Data)
		w.kinds[string(inner.Data)] = kind
		inner.Channel = ch
		sm.Data, _ = inner.MarshalVT()
	case "foreign-signature":
		sm = mk(M, ch, ch, tag, "")
		sm.FromPeerId = P.IDs
	case "embedded-pubkey":
		inner := &pubmessage.PubMessageInner{Data: []byte(tag), Channel: ch}
		ib, _ := inner.MarshalVT()
		sigObj, _ := peer.NewSignature("bifrost/pubsub/pubmessage 2024-06-05T02:38:47.55258Z channel/"+ch, M.Priv, hash.HashType_HashType_SHA256, ib, true)
		sm = &peer.SignedMsg{FromPeerId: P.IDs, Data: ib, Signature: sigObj}
	case "same-signature-new-data":
		// first the genuine message, then a copy with the same signature and sender but
		// another payload
		sm = w.honest(P, ch)
		w.m.Send(&floodsub.Packet{Publish: []*peer.SignedMsg{sm}})
		inner := &pubmessage.PubMessageInner{}
		_ = inner.UnmarshalVT(sm.Data)
		inner.Data = []byte(tag)
		cp := sm.CloneVT()
		cp.Data, _ = inner.MarshalVT()
		sm = cp
	case "wrong-context":
		sm = mk(P, ch, ch, tag, "bifrost/signaling/rpc session msg 2024-06-05T02:45:07.208906Z")
	case "cross-channel-context":
		sm = mk(P, other, ch, tag, "")
	case "empty-channel":
		sm = mk(P, "", "", tag, "")
	case "bare-context":
		// signed under the context prefix with no channel at all, addressed to ch
		sm = mk(P, "", ch, tag, "")
	case "prefix-channel-context":
		// signed for a channel whose name is a proper prefix of ch, addressed to ch
		sm = mk(P, ch[:len(ch)-1], ch, tag, "")
	case "unsubscribed-channel":
		// perfectly valid, but V does not subscribe to chZ
		w.n++
		data := fmt.Sprintf("msg-%d-P", w.n)
		w.kinds[data] = kind
		sm2, _, _ := pubmessage.NewPubMessage("chZ", P.Priv, hash.HashType_HashType_SHA256, []byte(data))
		w.pool[key("P", "chZ", data)] = true
		w.injAt[data] = s.Now()
		sm = sm2
	case "batch-invalid-then-valid":
		// one packet carrying a tampered message followed by a genuine one
		bad := w.honest(P, ch)
		inner := &pubmessage.PubMessageInner{}
		_ = inner.UnmarshalVT(bad.Data)
		inner.Data = []byte(tag)
		bad.Data, _ = inner.MarshalVT()
		good := w.honest(M, ch)
		s.Logf("M injects %s", kind)
		w.m.Send(&floodsub.Packet{Publish: []*peer.SignedMsg{bad, good}})
		return
	case "corrupt-frame":
		sm = w.honest(P, ch)
		fr := fsub.Frame(&floodsub.Packet{Publish: []*peer.SignedMsg{sm}})
		i := 4 + t.Draw(len(fr)-4, "flip-byte")
		fr[i] ^= byte(1 << uint(t.Draw(8, "flip-bit")))
		// the damaged copy is what travels; whether it still decodes is up to the bits
		w.m.SendRaw(fr)
		s.Logf("M injects %s", kind)
		return
	}
	s.Logf("M injects %s", kind)
	w.m.Send(&floodsub.Packet{Publish: []*peer.SignedMsg{sm}})
}

func (w *c27World) Actions(s *dsim.Sim, add func(dsim.Action)) {
	w.fw.Actions(add)
	if s.Phase == dsim.PhaseStable || w.ops >= w.maxOps {
		return
	}
	add(dsim.Action{Name: "3op:M-inject", Weight: 8, Fire: func() {
		w.ops++
		w.inject(c27Kinds[s.Tape.Draw(len(c27Kinds), "kind")])
	}})
	if s.ParkedCount() == 0 && w.fw.Idle() && w.quick < 2 {
		// the application subscribes to chZ and releases the subscription at once (both inside
		// one evaluation window of the router, nothing in flight): afterwards V does not
		// subscribe to chZ, as before
		add(dsim.Action{Name: "3op:V-subscribe-and-release-chZ", Weight: 2, Fire: func() {
			w.ops++
			w.quick++
			w.quickAt = s.Now()
			s.Count("fault:subscribe-then-release-at-once")
			sr := w.v.Subscribe("chZ")
			sr.Sub.Release()
			sr.Released = true
		}})
	}
	add(dsim.Action{Name: "3op:H-publish", Weight: 3, Fire: func() {
		w.ops++
		ch := w.chans[s.Tape.Draw(len(w.chans), "ch")]
		w.h.Send(&floodsub.Packet{Publish: []*peer.SignedMsg{w.honest(w.h.P, ch)}})
	}})
	add(dsim.Action{Name: "3op:V-publish", Weight: 2, Fire: func() {
		w.ops++
		ch := w.chans[s.Tape.Draw(len(w.chans), "ch")]
		w.n++
		data := fmt.Sprintf("msg-%d-V", w.n)
		w.pool[key("V", ch, data)] = true
		w.kinds[data] = "honest"
		go func() { _ = w.v.Publish(ch, data) }()
	}})
}

func (w *c27World) Invariant(s *dsim.Sim) *dsim.Violation { return w.viol }
func (w *c27World) Done(s *dsim.Sim) bool                 { return true }
func (w *c27World) Final(s *dsim.Sim, stuck bool) *dsim.Violation {
	return w.viol
}
func (w *c27World) Teardown(s *dsim.Sim) { w.fw.Close() }
