package props

import (
	"fmt"

	"github.com/aperturerobotics/util/backoff"

	"verif/sim/dsim"
	"verif/sim/worlds/sig"
)

// C23: signaling makes progress once both peers are stably attached.
//
// World SIG with the real relay Server and two real Clients. Workload: both add a peer
// ref to each other (in tape order), each issues 0-2 sends, application receive loops
// run. Faults in the chaos phase: session/listen stream resets (client retries with
// backoff), long ticks. Oracle (bounded liveness): after the last fault, under the
// fair schedule, within the horizon, every send has returned nil and the partner's
// application received its payload. Quiescence with a pending send = violation.
type c23World struct {
	cw                   *sig.ClientWorld
	toIssue              []pendingOp
	issued               int
	maxReset             int
	resets               int
	third                bool
	restarts, maxRestart int
}

type pendingOp struct {
	name string
	fire func()
	// ready reports whether the op may be issued now.
	ready func() bool
}

func init() {
	register(&Spec{
		ID: "C23", World: "SIG",
		New: func() dsim.World { return &c23World{} },
		Cfg: defaultCfg,
		Real: []string{"signaling/rpc/server.Server (Session, Listen)", "signaling/rpc/client.Client (Send, Recv, AddPeerRef, session tracker routine)",
			"util keyed.KeyedRefCount, routine.RoutineContainer, backoff", "peer.SignedMsg signing and verification"},
		Stub:       []string{"srpc transport replaced by simulator-owned message streams (worlds/sig.Net)", "stream identity callback", "util/broadcast lock instrumented (scheduling points)"},
		FaultKinds: []string{"fault:stream-reset", "fault:clock-jump", "fault:relay-restart", "fault:stream-closed-cleanly"},
	})
}

func sigArmAllow() []string {
	return []string{"sigsrv/", "bl:bifrost/signaling/rpc/client/client.go", "go:signaling/rpc/"}
}

func (w *c23World) Setup(s *dsim.Sim) {
	names := []string{"A", "B"}
	w.cw = sig.NewClientWorld(s, names)
	t := s.Tape
	arm := []int{0, 30, 60, 100}[t.Draw(4, "arm-pct")]
	s.ArmFraction(arm, sigArmAllow())
	var bo *backoff.Backoff
	if t.Bool(1, 2, "backoff-const") {
		bo = &backoff.Backoff{BackoffKind: backoff.BackoffKind_BackoffKind_CONSTANT}
	}
	for _, n := range names {
		w.cw.AddClient(n, bo)
	}
	w.maxReset = t.Draw(4, "max-resets")
	if t.Bool(1, 3, "relay-restarts") {
		w.maxRestart = 1 + t.Draw(2, "max-restarts")
	}
	nA := t.Draw(3, "sends-A")
	nB := t.Draw(3, "sends-B")
	if nA+nB == 0 {
		nA = 1
	}
	A, B := w.cw.Nodes["A"], w.cw.Nodes["B"]
	w.toIssue = append(w.toIssue,
		pendingOp{name: "3op:A.addref", fire: func() { A.AddRef("B") }},
		pendingOp{name: "3op:B.addref", fire: func() { B.AddRef("A") }},
	)
	for i := 0; i < nA; i++ {
		p := fmt.Sprintf("a%d", i)
		w.toIssue = append(w.toIssue, pendingOp{name: "3op:A.send." + p, ready: func() bool { return A.Refs["B"] != nil }, fire: func() { A.StartSend("B", p) }})
	}
	for i := 0; i < nB; i++ {
		p := fmt.Sprintf("b%d", i)
		w.toIssue = append(w.toIssue, pendingOp{name: "3op:B.send." + p, ready: func() bool { return B.Refs["A"] != nil }, fire: func() { B.StartSend("A", p) }})
	}
}

func (w *c23World) Actions(s *dsim.Sim, add func(dsim.Action)) {
	w.cw.Net.GC()
	w.cw.Net.DeliveryActions(add)
	for i := range w.toIssue {
		op := &w.toIssue[i]
		if op.fire == nil || (op.ready != nil && !op.ready()) {
			continue
		}
		add(dsim.Action{Name: op.name, Weight: 6, Fire: func() {
			f := op.fire
			op.fire = nil
			w.issued++
			f()
		}})
	}
	if s.Phase == dsim.PhaseChaos && w.restarts < w.maxRestart {
		add(dsim.Action{Name: "5flt:relay-restart", Weight: 1, Fault: true, Fire: func() {
			w.restarts++
			s.Count("fault:relay-restart")
			w.cw.Net.RestartRelay()
		}})
	}
	if w.resets < w.maxReset {
		// (a stream may also end cleanly, io.EOF instead of an error)
		w.cw.Net.CleanCloseActions(func(a dsim.Action) {
			f := a.Fire
			a.Fire = func() { w.resets++; f() }
			add(a)
		}, 1)
		w.cw.Net.ResetActions(func(a dsim.Action) {
			f := a.Fire
			a.Fire = func() { w.resets++; f() }
			add(a)
		}, 1, nil)
	}
}

func (w *c23World) Invariant(s *dsim.Sim) *dsim.Violation { return nil }

func (w *c23World) Done(s *dsim.Sim) bool {
	return w.issued == len(w.toIssue) && len(w.cw.PendingSends()) == 0
}

func (w *c23World) Final(s *dsim.Sim, stuck bool) *dsim.Violation {
	sends, _ := w.cw.Snapshot()
	for _, op := range sends {
		if !op.Done {
			return &dsim.Violation{Property: "C23", Rule: "send-never-completes",
				Witness: "quiescent-with-pending-send",
				Detail:  fmt.Sprintf("system quiescent for the whole horizon with %s still pending (resets=%d)", op.Describe(), w.resets)}
		}
		if op.Err != nil {
			return &dsim.Violation{Property: "C23", Rule: "send-failed", Witness: "uncancelled-send-error",
				Detail: op.Describe()}
		}
		if !w.cw.Received(op.To, op.From, op.Payload) {
			return &dsim.Violation{Property: "C23", Rule: "send-ok-not-received", Witness: "ack-without-delivery",
				Detail: op.Describe()}
		}
	}
	if w.issued != len(w.toIssue) {
		s.Inconclusive = "harness: workload ops left unissued at quiescence"
	}
	return nil
}

func (w *c23World) Teardown(s *dsim.Sim) { w.cw.Teardown() }
