package dsim

import _ "unsafe" // go:linkname

// runtimeSimRandSeed reseeds the simulation-build runtime's program-visible
// randomness (select case order, map seeds and iteration offsets, math/rand/v2
// globals). Provided by the runtime overlay (bin/gen_overlay.py). seed 0 = off.
//
//go:linkname runtimeSimRandSeed runtime.simRandSeed
func runtimeSimRandSeed(seed uint64)
