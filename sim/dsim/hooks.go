package dsim

import (
	"fmt"
	"path/filepath"
	"runtime"
	"strings"
	"sync"

	"github.com/aperturerobotics/bifrost/util/simhook"
	"github.com/aperturerobotics/util/broadcast"
	cache "github.com/patrickmn/go-cache"
)

// cur is the run in progress (one per process at a time).
var cur *Sim

var pcMu sync.Mutex
var pcNames = map[uintptr]string{}

func pcSite(pc uintptr) string {
	pcMu.Lock()
	defer pcMu.Unlock()
	if s, ok := pcNames[pc]; ok {
		return s
	}
	fr, _ := runtime.CallersFrames([]uintptr{pc}).Next()
	// site = "bl:<package path without the github org>/<file>:<line>", independent of
	// where the source tree lives on disk.
	fn := fr.Function
	pkg := fn
	if i := strings.LastIndex(fn, "/"); i >= 0 {
		if j := strings.Index(fn[i:], "."); j >= 0 {
			pkg = fn[:i+j]
		}
	} else if j := strings.Index(fn, "."); j >= 0 {
		pkg = fn[:j]
	}
	pkg = strings.TrimPrefix(pkg, "github.com/aperturerobotics/")
	s := fmt.Sprintf("bl:%s/%s:%d", pkg, filepath.Base(fr.File), fr.Line)
	s = strings.ReplaceAll(s, "|", "_")
	pcNames[pc] = s
	return s
}

// InstallHooks wires the /repo simhook package and the patched util/broadcast to
// the current run. Called once per process.
func InstallHooks() {
	simhook.YieldFn = func(site, key string) {
		if s := cur; s != nil {
			s.Yield(site, key)
		}
	}
	simhook.BuggifyFn = func(site string) bool {
		s := cur
		if s == nil || s.buggify == nil {
			return false
		}
		return s.buggify(site)
	}
	cache.SimYield = func(op string) {
		if s := cur; s != nil {
			s.Yield("cache/"+op, "")
		}
	}
	broadcast.Sim = &broadcast.SimHooks{
		BeforeLock: func(b *broadcast.Broadcast, pc uintptr) {
			s := cur
			if s == nil || s.armed == nil {
				return
			}
			s.Yield(pcSite(pc), s.bcastID(b))
		},
		AfterLock: func(b *broadcast.Broadcast, pc uintptr) {
			s := cur
			if s == nil || s.armed == nil || s.holderPark == nil {
				return
			}
			site := pcSite(pc)
			if !s.holderPark(site) {
				return
			}
			s.Yield("held:"+site, s.bcastID(b))
		},
	}
}

func (s *Sim) bcastID(b *broadcast.Broadcast) string {
	s.mu.Lock()
	if b.SimID == 0 {
		s.nextBcast++
		b.SimID = s.nextBcast
	}
	id := b.SimID
	s.mu.Unlock()
	return fmt.Sprintf("b%d", id)
}

// SetBuggify installs the per-run buggify predicate (pure function of site + hit index).
func (s *Sim) SetBuggify(f func(site string) bool) { s.buggify = f }

// SetHolderPark installs the predicate selecting lock sites where the holder parks too.
func (s *Sim) SetHolderPark(f func(site string) bool) { s.holderPark = f }
