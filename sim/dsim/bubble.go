package dsim

import (
	"fmt"
	"os"
	"testing"
	"testing/cryptotest"
	"testing/synctest"
	"time"
)

// TestingT is *testing.T.
type TestingT = *testing.T

// InfraError is a failure of the simulator itself (never a property verdict).
type InfraError struct{ Msg string }

func (e *InfraError) Error() string { return e.Msg }

// LastInfra holds the last infrastructure error of RunOne, if any.
var LastInfra *InfraError

func runBubble(t *testing.T, s *Sim) {
	LastInfra = nil
	// crypto/rand (keys, certificates, nonces, QUIC connection IDs) repeats per seed
	cryptotest.SetGlobalRandom(t, Mix(s.Tape.Seed, 0xc0de))
	runtimeSimRandSeed(Mix(s.Tape.Seed, 0x5eed) | 1)
	defer runtimeSimRandSeed(0)
	defer func() {
		if os.Getenv("DSIM_NORECOVER") == "1" {
			return
		}
		if r := recover(); r != nil {
			LastInfra = &InfraError{Msg: fmt.Sprintf("bubble: %v", r)}
		}
	}()
	synctest.Test(t, func(t *testing.T) {
		start := time.Now()
		s.runBody()
		s.fakeElapsed = time.Since(start)
		// let cancelled goroutines unwind; timers created by the system may still be
		// pending, give them fake time to fire and exit.
		synctest.Wait()
		time.Sleep(30 * time.Second)
		synctest.Wait()
	})
}
