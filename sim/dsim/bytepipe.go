package dsim

import (
	"errors"
	"io"
	"os"
	"sync"
	"time"
)

// ByteDir is one direction of a simulator-owned ordered byte stream. Write never blocks;
// bytes sit in transit until the driver delivers a chunk of its choosing (splitting and
// coalescing writes arbitrarily); Read blocks durably until something is readable.
type ByteDir struct {
	Name string
	mu   sync.Mutex
	// All is every byte ever written (ground truth for oracles).
	All     []byte
	deliv   int // bytes delivered so far (offset into All)
	read    int // bytes handed to the reader so far (offset into All)
	wake    chan struct{}
	closedW bool  // writer closed: EOF once everything is delivered and read
	rerr    error // reset: reader fails immediately, writer fails
	closedR bool  // reader closed its end
	// ErrWithData: the final bytes and the terminal error are returned by one Read call.
	ErrWithData bool
	// MaxRead, if >0, caps the bytes returned by one Read.
	MaxRead int
	// ShortWrite, if >0, makes Write accept at most that many bytes per call (n<len, nil).
	ShortWrite int
	// Window, if >0, is a flow-control window: Write blocks (durably) while that many bytes
	// or more are written but not yet read by the other end.
	Window int
	// Stalled: the driver delivers nothing on this direction (a peer that stopped reading).
	Stalled bool
	// PreWrite, if set, is called at the start of every Write, before anything is written
	// (a scheduling point between two Write calls; each Write itself stays atomic, as the
	// Write of a socket or of a multiplexed stream is).
	PreWrite func()
	// SlowWrite, if set, is called in the middle of every Write (see Write).
	SlowWrite func()
	// ReadLog records every successful underlying Read as (offset, n).
	ReadLog [][2]int
	// EndErr is the terminal error the reader was given (nil until then).
	EndErr error
	// WriteLog / DelivLog record (end offset, global event sequence) of every Write and
	// every Deliver, so that oracles can order wire events across streams.
	WriteLog [][2]int
	DelivLog [][2]int
}

// EventSeq is a process-wide event counter for ordering wire events (reset per run).
var EventSeq int

// NewByteDir creates a direction (inside the bubble).
func NewByteDir(name string) *ByteDir {
	return &ByteDir{Name: name, wake: make(chan struct{})}
}

func (d *ByteDir) bcast() {
	close(d.wake)
	d.wake = make(chan struct{})
}

// Write appends to the transit buffer.
func (d *ByteDir) Write(b []byte) (int, error) {
	if d.PreWrite != nil {
		d.PreWrite()
	}
	d.mu.Lock()
	defer d.mu.Unlock()
	if d.rerr != nil {
		return 0, d.rerr
	}
	if d.closedW {
		return 0, io.ErrClosedPipe
	}
	for d.Window > 0 && len(d.All)-d.read >= d.Window && d.rerr == nil && !d.closedW && !d.closedR {
		// back-pressure: wait until the reader has consumed something
		w := d.wake
		d.mu.Unlock()
		<-w
		d.mu.Lock()
	}
	if d.rerr != nil {
		return 0, d.rerr
	}
	if d.closedW {
		return 0, io.ErrClosedPipe
	}
	n := len(b)
	if d.ShortWrite > 0 && n > d.ShortWrite {
		n = d.ShortWrite
	}
	if d.SlowWrite != nil && n > 1 {
		// a flow-controlled writer: the first half goes out, the writer waits (scheduling
		// point, no pipe lock held), then the rest is taken from the CALLER'S buffer
		h := n / 2
		d.All = append(d.All, b[:h]...)
		d.mu.Unlock()
		d.SlowWrite()
		d.mu.Lock()
		if d.rerr != nil {
			return h, d.rerr
		}
		d.All = append(d.All, b[h:n]...)
	} else {
		d.All = append(d.All, b[:n]...)
	}
	EventSeq++
	d.WriteLog = append(d.WriteLog, [2]int{len(d.All), EventSeq})
	return n, nil
}

// InTransit returns the number of undelivered bytes.
func (d *ByteDir) InTransit() int {
	d.mu.Lock()
	defer d.mu.Unlock()
	return len(d.All) - d.deliv
}

// Unread returns delivered-but-unread bytes.
func (d *ByteDir) Unread() int {
	d.mu.Lock()
	defer d.mu.Unlock()
	return d.deliv - d.read
}

// PendingEOF reports that the writer closed and the reader has not been told yet.
func (d *ByteDir) PendingEOF() bool {
	d.mu.Lock()
	defer d.mu.Unlock()
	return d.closedW && d.EndErr == nil && d.rerr == nil
}

// Deliver makes k more bytes readable (driver only).
func (d *ByteDir) Deliver(k int) {
	d.mu.Lock()
	if k > len(d.All)-d.deliv {
		k = len(d.All) - d.deliv
	}
	if k > 0 {
		d.deliv += k
		EventSeq++
		d.DelivLog = append(d.DelivLog, [2]int{d.deliv, EventSeq})
		d.bcast()
	}
	d.mu.Unlock()
}

// CloseWrite ends the stream cleanly after the bytes written so far.
func (d *ByteDir) CloseWrite() {
	d.mu.Lock()
	if !d.closedW {
		d.closedW = true
		d.bcast()
	}
	d.mu.Unlock()
}

// Reset fails the direction at once; undelivered and unread bytes are lost.
func (d *ByteDir) Reset(err error) {
	d.mu.Lock()
	if d.rerr == nil {
		d.rerr = err
		d.bcast()
	}
	d.mu.Unlock()
}

// CloseRead is the reader closing its own end.
func (d *ByteDir) CloseRead() {
	d.mu.Lock()
	d.closedR = true
	d.bcast()
	d.mu.Unlock()
}

// Read implements io.Reader for the receiving end.
func (d *ByteDir) Read(b []byte) (int, error) { return d.ReadDeadline(b, time.Time{}) }

// ReadDeadline is Read with an absolute (fake-clock) deadline; zero means none.
func (d *ByteDir) ReadDeadline(b []byte, deadline time.Time) (int, error) {
	var timer *time.Timer
	var timeout <-chan time.Time
	if !deadline.IsZero() {
		dur := time.Until(deadline)
		if dur <= 0 {
			return 0, os.ErrDeadlineExceeded
		}
		timer = time.NewTimer(dur)
		timeout = timer.C
		defer timer.Stop()
	}
	for {
		d.mu.Lock()
		if d.closedR {
			d.mu.Unlock()
			return 0, io.ErrClosedPipe
		}
		if d.rerr != nil {
			err := d.rerr
			d.EndErr = err
			d.mu.Unlock()
			return 0, err
		}
		avail := d.deliv - d.read
		if avail > 0 && len(b) > 0 {
			n := avail
			if n > len(b) {
				n = len(b)
			}
			if d.MaxRead > 0 && n > d.MaxRead {
				n = d.MaxRead
			}
			copy(b, d.All[d.read:d.read+n])
			d.ReadLog = append(d.ReadLog, [2]int{d.read, n})
			d.read += n
			if d.Window > 0 {
				d.bcast()
			}
			var err error
			if d.ErrWithData && d.closedW && d.read == len(d.All) {
				err = io.EOF
				d.EndErr = err
			}
			d.mu.Unlock()
			return n, err
		}
		if d.closedW && d.deliv == len(d.All) {
			d.EndErr = io.EOF
			d.mu.Unlock()
			return 0, io.EOF
		}
		w := d.wake
		d.mu.Unlock()
		select {
		case <-w:
		case <-timeout:
			return 0, os.ErrDeadlineExceeded
		}
	}
}

// ByteEnd is one end of a duplex byte stream (io.ReadWriteCloser).
type ByteEnd struct {
	R *ByteDir // what this end reads
	W *ByteDir // what this end writes
}

func (e *ByteEnd) Read(b []byte) (int, error)  { return e.R.Read(b) }
func (e *ByteEnd) Write(b []byte) (int, error) { return e.W.Write(b) }

// Close closes both directions as seen from this end.
func (e *ByteEnd) Close() error {
	e.W.CloseWrite()
	e.R.CloseRead()
	return nil
}

// NewBytePair creates a duplex stream; returns the two ends.
func NewBytePair(name string) (*ByteEnd, *ByteEnd) {
	ab := NewByteDir(name + ".ab")
	ba := NewByteDir(name + ".ba")
	return &ByteEnd{R: ba, W: ab}, &ByteEnd{R: ab, W: ba}
}

// ErrByteReset is the injected reset error.
var ErrByteReset = errors.New("dsim: byte stream reset")

// DeliverAction builds the chunked-delivery action for a direction. The chunk size is
// drawn when the action fires.
func (d *ByteDir) DeliverAction(s *Sim) (Action, bool) {
	n := d.InTransit()
	if n == 0 || d.Stalled {
		return Action{}, false
	}
	return Action{Name: "1dlv:" + d.Name, Weight: 10, Fire: func() {
		n := d.InTransit()
		if n == 0 {
			return
		}
		var k int
		switch s.Tape.Draw(8, "chunk-kind") {
		case 0:
			k = n // everything (coalesced)
		case 1:
			k = 1
		case 2:
			k = 2
		case 3:
			k = 3
		case 4:
			k = 4
		case 5:
			k = 5
		case 6:
			k = (n + 1) / 2
		default:
			k = 1 + s.Tape.Draw(n, "chunk-len")
		}
		if k > n {
			k = n
		}
		if k < n {
			s.Count("fault:chunking")
		}
		s.Logf("  %s +%d/%d", d.Name, k, n)
		d.Deliver(k)
	}}, true
}
