// Package dsim is the deterministic simulation kernel: tape (the single source of
// choice), driver loop over a testing/synctest bubble, parked tasks (scheduling
// points), simulated stream/packet networks, event log, shrinker.
package dsim

import "fmt"

// splitmix64
type rng struct{ s uint64 }

func (r *rng) next() uint64 {
	r.s += 0x9e3779b97f4a7c15
	z := r.s
	z = (z ^ (z >> 30)) * 0xbf58476d1ce4e5b9
	z = (z ^ (z >> 27)) * 0x94d049bb133111eb
	return z ^ (z >> 31)
}

// Mix derives a sub-seed from integers (pure).
func Mix(vs ...uint64) uint64 {
	r := rng{s: 0x1234567}
	var acc uint64
	for _, v := range vs {
		r.s ^= v
		acc = r.next()
		r.s = acc
	}
	return acc
}

// HashStr is FNV-1a 64.
func HashStr(s string) uint64 {
	h := uint64(14695981039346656037)
	for i := 0; i < len(s); i++ {
		h ^= uint64(s[i])
		h *= 1099511628211
	}
	return h
}

// Tape is the one source of choice of a run. Entries beyond the preset prefix are
// drawn from a PRNG seeded by Seed; in Strict mode (shrinking/replay) entries beyond
// the prefix read as 0, which by construction of the canonical action order means
// "the most boring choice" (deliver oldest, no fault, shortest tick).
type Tape struct {
	Seed   uint64
	Pre    []uint32
	Strict bool
	Rec    []uint32
	Labels []string // label of each draw (diagnostics, replay divergence check)
	r      rng
	// ExpectLabels, if set, is compared against labels on replay.
	ExpectLabels []string
	Diverged     string
}

// NewTape creates a tape.
func NewTape(seed uint64, pre []uint32, strict bool) *Tape {
	return &Tape{Seed: seed, Pre: pre, Strict: strict, r: rng{s: seed}}
}

// Draw returns a value in [0,n). label names the decision.
func (t *Tape) Draw(n int, label string) int {
	if n <= 0 {
		panic("dsim: Draw n<=0 " + label)
	}
	var v uint32
	i := len(t.Rec)
	if i < len(t.Pre) {
		v = t.Pre[i]
	} else if t.Strict {
		v = 0
	} else {
		v = uint32(t.r.next() >> 33)
	}
	v = v % uint32(n)
	if t.ExpectLabels != nil && i < len(t.ExpectLabels) && t.Diverged == "" {
		if t.ExpectLabels[i] != label {
			t.Diverged = fmt.Sprintf("draw %d: recorded %q, now %q", i, t.ExpectLabels[i], label)
		}
	}
	t.Rec = append(t.Rec, v)
	t.Labels = append(t.Labels, label)
	return int(v)
}

// Bool draws a boolean that is true with probability num/den; 0 = false.
func (t *Tape) Bool(num, den int, label string) bool {
	return t.Draw(den, label) >= den-num
}

// Range draws in [lo,hi].
func (t *Tape) Range(lo, hi int, label string) int {
	if hi < lo {
		hi = lo
	}
	return lo + t.Draw(hi-lo+1, label)
}

// Weighted draws an index according to weights (all >=0, sum>0). Index 0 is what
// value 0 selects.
func (t *Tape) Weighted(ws []int, label string) int {
	total := 0
	for _, w := range ws {
		total += w
	}
	if total <= 0 {
		panic("dsim: Weighted total<=0 " + label)
	}
	v := t.Draw(total, label)
	for i, w := range ws {
		if v < w {
			return i
		}
		v -= w
	}
	return len(ws) - 1
}
