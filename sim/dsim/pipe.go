package dsim

import (
	"context"
	"errors"
	"io"
	"sync"
)

// ErrReset is what both ends of a stream see after an injected reset.
var ErrReset = errors.New("dsim: stream reset")

// Item is one unit in transit on a Pipe.
type Item struct {
	Data []byte
	// Ctl is a control marker: "" data, "open", "eof" (clean end, Err may carry the
	// remote's final error text), "err" (remote handler returned an error).
	Ctl string
	Err string
}

// Pipe is one direction of a reliable ordered stream owned by the simulator.
// Send never blocks; Recv blocks (durably, on a channel) until the driver delivers.
type Pipe struct {
	Name string
	mu   sync.Mutex
	q    []Item // in transit
	dq   []Item // delivered, unread
	wake chan struct{}
	// rerr is set by a reset: Recv fails immediately, Send fails.
	rerr error
	// sendClosed: the writer closed (further Send fails).
	sendClosed bool
	// OnDeliver, if set, is called (driver goroutine) when an item is delivered.
	OnDeliver func(it Item)
	Sent      int
	Delivered int
}

// NewPipe makes a pipe. Must be created inside the bubble.
func NewPipe(name string) *Pipe {
	return &Pipe{Name: name, wake: make(chan struct{})}
}

func (p *Pipe) bcast() {
	close(p.wake)
	p.wake = make(chan struct{})
}

// Send enqueues an item.
func (p *Pipe) Send(it Item) error {
	p.mu.Lock()
	defer p.mu.Unlock()
	if p.rerr != nil {
		return p.rerr
	}
	if p.sendClosed {
		return io.ErrClosedPipe
	}
	if it.Ctl == "eof" || it.Ctl == "err" {
		p.sendClosed = true
	}
	p.q = append(p.q, it)
	p.Sent++
	return nil
}

// InTransit returns the number of queued items.
func (p *Pipe) InTransit() int {
	p.mu.Lock()
	defer p.mu.Unlock()
	return len(p.q)
}

// Peek returns the head of the transit queue.
func (p *Pipe) Peek() (Item, bool) {
	p.mu.Lock()
	defer p.mu.Unlock()
	if len(p.q) == 0 {
		return Item{}, false
	}
	return p.q[0], true
}

// Deliver moves the head of the transit queue to the reader (driver only).
func (p *Pipe) Deliver() {
	p.mu.Lock()
	if len(p.q) == 0 {
		p.mu.Unlock()
		return
	}
	it := p.q[0]
	p.q = p.q[1:]
	p.dq = append(p.dq, it)
	p.Delivered++
	p.bcast()
	cb := p.OnDeliver
	p.mu.Unlock()
	if cb != nil {
		cb(it)
	}
}

// DropHead removes the head of the transit queue (lossy relay fault).
func (p *Pipe) DropHead() (Item, bool) {
	p.mu.Lock()
	defer p.mu.Unlock()
	if len(p.q) == 0 {
		return Item{}, false
	}
	it := p.q[0]
	p.q = p.q[1:]
	return it, true
}

// DupHead duplicates the head of the transit queue.
func (p *Pipe) DupHead() bool {
	p.mu.Lock()
	defer p.mu.Unlock()
	if len(p.q) == 0 || p.q[0].Ctl != "" {
		return false
	}
	it := p.q[0]
	it.Data = append([]byte(nil), it.Data...)
	p.q = append([]Item{it}, p.q...)
	return true
}

// MutateHead lets a fault rewrite the head item in place.
func (p *Pipe) MutateHead(f func(it *Item)) bool {
	p.mu.Lock()
	defer p.mu.Unlock()
	if len(p.q) == 0 {
		return false
	}
	f(&p.q[0])
	return true
}

// InjectFront puts an item at the head of the delivered queue path: it is queued in
// transit ahead of everything else.
func (p *Pipe) InjectFront(it Item) {
	p.mu.Lock()
	p.q = append([]Item{it}, p.q...)
	p.mu.Unlock()
}

// Reset fails the pipe in both roles immediately and drops everything in transit.
func (p *Pipe) Reset(err error) {
	p.mu.Lock()
	if p.rerr == nil {
		p.rerr = err
		p.q = nil
		p.dq = nil
		p.bcast()
	}
	p.mu.Unlock()
}

// Recv returns the next delivered item, or an error after reset / context end.
func (p *Pipe) Recv(ctx context.Context) (Item, error) {
	for {
		p.mu.Lock()
		if p.rerr != nil {
			err := p.rerr
			p.mu.Unlock()
			return Item{}, err
		}
		if len(p.dq) > 0 {
			it := p.dq[0]
			p.dq = p.dq[1:]
			p.mu.Unlock()
			return it, nil
		}
		w := p.wake
		p.mu.Unlock()
		select {
		case <-w:
		case <-ctx.Done():
			return Item{}, context.Canceled
		}
	}
}
