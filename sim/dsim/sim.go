package dsim

import (
	"fmt"
	"sort"
	"strings"
	"sync"
	"testing/synctest"
	"time"
)

// Action is one thing the driver may do next.
type Action struct {
	// Name is canonical and stable: the driver sorts by it. Prefix convention:
	// "1dlv:" delivery, "2run:" parked task, "3op:" workload operation,
	// "5flt:" fault. Ticks are added by the driver ("4tick").
	Name   string
	Weight int
	Fire   func()
	// Fault marks fault actions (disabled in the stabilisation phase).
	Fault bool
}

// Violation is an oracle verdict.
type Violation struct {
	Property string `json:"property"`
	Rule     string `json:"rule"`    // oracle rule that fired
	Witness  string `json:"witness"` // class key: minimal discriminating facts
	Detail   string `json:"detail"`
	Step     int    `json:"step"`
}

func (v *Violation) Class() string { return v.Property + "|" + v.Rule + "|" + v.Witness }

// Event is one entry of the run's event log.
type Event struct {
	Step int
	Text string
}

// Phase of a run.
type Phase int

const (
	PhaseChaos Phase = iota
	PhaseStable
)

// Config bounds a run.
type Config struct {
	MaxChaosSteps  int           // upper bound for the chaos phase (actual count drawn per run)
	MaxStableSteps int           // step budget of the stabilisation phase
	Horizon        time.Duration // fake-time horizon of the stabilisation phase
	KeepLog        bool
}

// World is what a property's scenario implements.
type World interface {
	// Setup builds the system inside the bubble and draws scenario parameters.
	Setup(s *Sim)
	// Actions appends currently enabled actions (called at quiescence).
	Actions(s *Sim, add func(Action))
	// Invariant is evaluated at every quiescent point.
	Invariant(s *Sim) *Violation
	// Done reports that the workload has nothing more to issue and nothing pending.
	Done(s *Sim) bool
	// Final is evaluated at the end of the stabilisation phase. stuck is true when
	// the system became quiescent (nothing enabled across the whole horizon), false
	// if the workload completed.
	Final(s *Sim, stuck bool) *Violation
	// Teardown cancels everything so that the bubble can drain.
	Teardown(s *Sim)
}

// Sim is one run.
type Sim struct {
	Tape *Tape
	Cfg  Config
	// AlwaysArm lists scheduling-point sites that park regardless of the armed fraction.
	AlwaysArm []string
	World     World

	Step  int
	Phase Phase
	Start time.Time

	mu      sync.Mutex
	log     []Event
	parked  map[string]*parkedTask
	siteCnt map[string]int
	Stats   map[string]int // fault kinds fired, probes hit
	armed   func(site string) bool
	RunSalt uint64

	firstEnabled map[string]int // fairness bookkeeping in the stable phase
	traceHash    uint64
	stateHashes  map[uint64]struct{}
	viol         *Violation
	Inconclusive string
	ChaosSteps   int
	Interleaved  bool // >=2 tasks were parked simultaneously at some point
	fakeElapsed  time.Duration
	nextBcast    int
	driverActive bool
	tearingDown  bool
	// KeyAlias shortens scheduling-point keys (e.g. peer ids -> party names).
	KeyAlias   func(string) string
	buggify    func(site string) bool
	holderPark func(site string) bool
}

type parkedTask struct {
	name string
	gate chan struct{}
}

// Result summarises a run.
type Result struct {
	Seed         uint64            `json:"seed"`
	Violation    *Violation        `json:"violation,omitempty"`
	Inconclusive string            `json:"inconclusive,omitempty"`
	Steps        int               `json:"steps"`
	ChaosSteps   int               `json:"chaos_steps"`
	FakeNs       int64             `json:"fake_ns"`
	Stats        map[string]int    `json:"stats"`
	TraceHash    uint64            `json:"trace_hash"`
	States       []uint64          `json:"-"`
	Tape         []uint32          `json:"tape,omitempty"`
	Labels       []string          `json:"labels,omitempty"`
	Log          []string          `json:"log,omitempty"`
	Diverged     string            `json:"diverged,omitempty"`
	Interleaved  bool              `json:"interleaved"`
	Extra        map[string]string `json:"extra,omitempty"`
}

// Logf appends to the event log (never draws, never reads a real clock).
func (s *Sim) Logf(format string, a ...any) {
	s.mu.Lock()
	txt := fmt.Sprintf(format, a...)
	s.log = append(s.log, Event{Step: s.Step, Text: txt})
	if !s.tearingDown {
		// events of the teardown (order in which cancelled goroutines unwind) are logged but
		// not part of the trace identity: verdicts are final before teardown starts
		s.traceHash = s.traceHash*1099511628211 ^ HashStr(txt)
	}
	s.mu.Unlock()
}

// Count increments a fault/probe counter.
func (s *Sim) Count(key string) {
	s.mu.Lock()
	s.Stats[key]++
	s.mu.Unlock()
}

// NoteState records an abstract-state hash (distinct-states measure).
func (s *Sim) NoteState(h uint64) {
	s.mu.Lock()
	s.stateHashes[h] = struct{}{}
	s.mu.Unlock()
}

// Fail records the first violation.
func (s *Sim) Fail(v *Violation) {
	s.mu.Lock()
	if s.viol == nil && v != nil {
		v.Step = s.Step
		s.viol = v
	}
	s.mu.Unlock()
}

// Failed reports whether a violation was recorded.
func (s *Sim) Failed() bool {
	s.mu.Lock()
	defer s.mu.Unlock()
	return s.viol != nil
}

// Now returns fake time since run start.
func (s *Sim) Now() time.Duration { return time.Since(s.Start) }

// SetArmed installs the per-run armed-site predicate.
func (s *Sim) SetArmed(f func(site string) bool) { s.armed = f }

// ArmFraction arms each site of the allow-list with probability pct/100, as a pure
// function of (RunSalt, site). prefixAllow: site must contain one of the substrings.
func (s *Sim) ArmFraction(pct int, allow []string) {
	salt := s.RunSalt
	s.armed = func(site string) bool {
		ok := false
		for _, a := range allow {
			if strings.Contains(site, a) {
				ok = true
				break
			}
		}
		if !ok {
			return false
		}
		return int(Mix(salt, HashStr(site))%100) < pct
	}
}

// Yield is a scheduling point: if the site is armed the calling goroutine parks
// until the driver releases it. Must not be called with a plain mutex held.
func (s *Sim) Yield(site, key string) {
	// the driver goroutine itself never parks (it may call into the system under test
	// from oracles); system goroutines only run while the driver is blocked.
	if s == nil || s.armed == nil || s.driverActive {
		return
	}
	always := false
	for _, a := range s.AlwaysArm {
		if strings.Contains(site, a) {
			always = true
		}
	}
	if !always && !s.armed(site) {
		return
	}
	if s.KeyAlias != nil {
		key = s.KeyAlias(key)
	}
	s.mu.Lock()
	base := site + "|" + key
	n := s.siteCnt[base]
	s.siteCnt[base] = n + 1
	name := fmt.Sprintf("2run:%s#%d", base, n)
	g := make(chan struct{})
	s.parked[name] = &parkedTask{name: name, gate: g}
	if len(s.parked) >= 2 {
		s.Interleaved = true
	}
	s.mu.Unlock()
	<-g
}

func (s *Sim) parkedActions(add func(Action)) {
	s.mu.Lock()
	names := make([]string, 0, len(s.parked))
	for n := range s.parked {
		names = append(names, n)
	}
	s.mu.Unlock()
	for _, n := range names {
		n := n
		add(Action{Name: n, Weight: 10, Fire: func() {
			s.mu.Lock()
			p := s.parked[n]
			delete(s.parked, n)
			s.mu.Unlock()
			if p != nil {
				close(p.gate)
			}
		}})
	}
}

// ParkedCount returns the number of tasks parked at scheduling points.
func (s *Sim) ParkedCount() int {
	s.mu.Lock()
	defer s.mu.Unlock()
	return len(s.parked)
}

// ReleaseAllParked opens every gate (teardown).
func (s *Sim) ReleaseAllParked() {
	s.mu.Lock()
	ps := s.parked
	s.parked = map[string]*parkedTask{}
	s.armed = nil
	s.mu.Unlock()
	for _, p := range ps {
		close(p.gate)
	}
}

var tickLadder = []time.Duration{
	100 * time.Microsecond, time.Millisecond, 10 * time.Millisecond, 100 * time.Millisecond,
	time.Second, 5 * time.Second, 11 * time.Second, 61 * time.Second, 125 * time.Second, 10*time.Minute + time.Second,
}

func (s *Sim) collect() []Action {
	var acts []Action
	add := func(a Action) {
		if a.Weight <= 0 {
			a.Weight = 1
		}
		acts = append(acts, a)
	}
	s.World.Actions(s, add)
	s.parkedActions(add)
	sort.Slice(acts, func(i, j int) bool { return acts[i].Name < acts[j].Name })
	for i := 1; i < len(acts); i++ {
		if acts[i].Name == acts[i-1].Name {
			panic("dsim: duplicate action name " + acts[i].Name)
		}
	}
	return acts
}

func (s *Sim) wait() {
	s.driverActive = false
	synctest.Wait()
	s.driverActive = true
}

func (s *Sim) sleep(d time.Duration) {
	s.driverActive = false
	time.Sleep(d)
	synctest.Wait()
	s.driverActive = true
}

// runBody executes the run inside the bubble.
func (s *Sim) runBody() {
	s.driverActive = true
	s.Start = time.Now()
	s.RunSalt = uint64(s.Tape.Draw(1<<30, "salt"))
	s.World.Setup(s)
	chaos := 0
	if s.Cfg.MaxChaosSteps > 0 {
		chaos = s.Tape.Range(1, s.Cfg.MaxChaosSteps, "chaos-steps")
	}
	s.ChaosSteps = chaos
	s.Phase = PhaseChaos
	for s.Step = 0; s.Step < chaos; s.Step++ {
		s.wait()
		if s.Failed() {
			break
		}
		if v := s.World.Invariant(s); v != nil {
			s.Fail(v)
			break
		}
		acts := s.collect()
		ws := make([]int, 0, len(acts)+1)
		nonTick := 0
		for _, a := range acts {
			ws = append(ws, a.Weight)
			nonTick += a.Weight
		}
		// tick: always possible; light weight while other things are enabled
		tickW := 2
		if nonTick == 0 {
			tickW = 1
		}
		ws = append(ws, tickW)
		i := s.Tape.Weighted(ws, "act")
		if i == len(acts) {
			d := tickLadder[s.Tape.Draw(len(tickLadder), "tick")]
			s.Logf("tick %v", d)
			if d >= time.Minute {
				s.Count("fault:clock-jump")
			}
			s.sleep(d)
			continue
		}
		a := acts[i]
		s.Logf("do %s", a.Name)
		a.Fire()
	}
	if !s.Failed() {
		s.stabilise()
	}
	s.tearingDown = true
	s.ReleaseAllParked()
	s.World.Teardown(s)
	s.ReleaseAllParked()
}

// stabilise runs the fair, fault-free suffix.
func (s *Sim) stabilise() {
	s.Phase = PhaseStable
	s.Logf("stable-phase")
	s.firstEnabled = map[string]int{}
	deadline := s.Cfg.Horizon
	phaseStart := s.Now()
	idleTick := time.Millisecond
	idleSpent := time.Duration(0)
	end := s.Step + s.Cfg.MaxStableSteps
	for ; s.Step < end; s.Step++ {
		s.wait()
		if s.Failed() {
			return
		}
		if v := s.World.Invariant(s); v != nil {
			s.Fail(v)
			return
		}
		all := s.collect()
		acts := all[:0:0]
		for _, a := range all {
			if !a.Fault {
				acts = append(acts, a)
			}
		}
		if len(acts) == 0 {
			if s.World.Done(s) {
				if v := s.World.Final(s, false); v != nil {
					s.Fail(v)
				}
				return
			}
			// nothing enabled: let fake time pass, escalating, up to the horizon
			if s.Now()-phaseStart >= deadline || idleSpent >= deadline {
				if v := s.World.Final(s, true); v != nil {
					s.Fail(v)
				}
				return
			}
			s.Logf("idle-tick %v", idleTick)
			s.sleep(idleTick)
			idleSpent += idleTick
			if idleTick < 10*time.Minute {
				idleTick *= 4
			}
			continue
		}
		idleTick, idleSpent = time.Millisecond, 0
		// fair policy: the action enabled for the longest time, ties by name
		best := -1
		seen := map[string]struct{}{}
		for i, a := range acts {
			seen[a.Name] = struct{}{}
			fe, ok := s.firstEnabled[a.Name]
			if !ok {
				fe = s.Step
				s.firstEnabled[a.Name] = fe
			}
			if best < 0 || fe < s.firstEnabled[acts[best].Name] {
				best = i
			}
		}
		for n := range s.firstEnabled {
			if _, ok := seen[n]; !ok {
				delete(s.firstEnabled, n)
			}
		}
		a := acts[best]
		delete(s.firstEnabled, a.Name)
		s.Logf("do %s", a.Name)
		a.Fire()
	}
	s.Inconclusive = "stable-phase step budget exhausted"
}

// RunOne executes one run in a synctest bubble and returns its result. t must be
// a *testing.T (taken as an interface to keep this package importable).
func RunOne(t TestingT, w World, cfg Config, tape *Tape) (res Result) {
	s := &Sim{
		Tape: tape, Cfg: cfg, World: w,
		parked: map[string]*parkedTask{}, siteCnt: map[string]int{},
		Stats: map[string]int{}, stateHashes: map[uint64]struct{}{},
	}
	cur = s
	EventSeq = 0
	runBubble(t, s)
	cur = nil
	res.Seed = tape.Seed
	res.Violation = s.viol
	res.Inconclusive = s.Inconclusive
	res.Steps = s.Step
	res.ChaosSteps = s.ChaosSteps
	res.Stats = s.Stats
	res.TraceHash = s.traceHash
	res.Tape = tape.Rec
	res.Labels = tape.Labels
	res.Diverged = tape.Diverged
	res.Interleaved = s.Interleaved
	res.FakeNs = int64(s.fakeElapsed)
	for h := range s.stateHashes {
		res.States = append(res.States, h)
	}
	if cfg.KeepLog || s.viol != nil {
		for _, e := range s.log {
			res.Log = append(res.Log, fmt.Sprintf("%d %s", e.Step, e.Text))
		}
	}
	return res
}
