// Package fsub is the floodsub part of the NODE world: real FloodSub routers joined by
// simulator-owned streams (or talking to scripted harness peers).
package fsub

import (
	"context"
	"encoding/binary"
	"fmt"
	"io"

	"github.com/aperturerobotics/bifrost/crypto"
	"github.com/aperturerobotics/bifrost/peer"
	"github.com/aperturerobotics/bifrost/pubsub"
	"github.com/aperturerobotics/bifrost/pubsub/floodsub"
	stream_packet "github.com/aperturerobotics/bifrost/stream/packet"
	"github.com/sirupsen/logrus"

	"verif/sim/dsim"
	"verif/sim/worlds/node"
	"verif/sim/worlds/sig"
)

// World holds routers, scripted peers and connections.
type World struct {
	S      *dsim.Sim
	Net    *node.Net
	Log    *logrus.Entry
	ctx    context.Context
	cancel context.CancelFunc
	Nodes  map[string]*FNode
	Order  []string
	Conns  []*Conn
	linkID uint64
	// OnMsg is called for every subscription handler callback.
	OnMsg func(n *FNode, sub *SubRec, from peer.ID, data []byte)
	// OnScriptRecv is called for every Publish message a scripted peer receives.
	OnScriptRecv func(sc *Script, m *peer.SignedMsg)
	// AnnLog is every subscription announcement any scripted peer read, in read order
	// (over all of its streams: which of two streams re-opened under one tuple the router
	// treats as current is the router's business).
	AnnLog []Ann
}

// Ann is one subscription announcement as read by a scripted peer.
type Ann struct {
	Peer      string
	Conn      string
	Channel   string
	Subscribe bool
}

// FNode is one real FloodSub router.
type FNode struct {
	W      *World
	Name   string
	P      *sig.Party
	FS     pubsub.PubSub
	ctx    context.Context
	cancel context.CancelFunc
	Subs   []*SubRec
	gen    int
}

// SubRec is one local subscription.
type SubRec struct {
	N        *FNode
	ID       int
	Channel  string
	Sub      pubsub.Subscription
	Got      []GotMsg
	Released bool
	// AfterRelease counts callbacks that arrived after Release returned.
	AfterRelease int
	remove       func()
}

// GotMsg is one handler callback.
type GotMsg struct {
	From string
	Data string
	Seq  int
	Step int
}

// New creates the world.
func New(s *dsim.Sim) *World {
	lg := logrus.New()
	lg.SetOutput(io.Discard)
	lg.SetLevel(logrus.PanicLevel)
	ctx, cancel := context.WithCancel(context.Background())
	w := &World{S: s, Net: node.NewNet(s), Log: logrus.NewEntry(lg), ctx: ctx, cancel: cancel, Nodes: map[string]*FNode{}}
	return w
}

// Party returns the identity for a name.
func (w *World) Party(name string) *sig.Party { return w.Net.Party(name) }

// AddNode starts a FloodSub router.
func (w *World) AddNode(name string) *FNode {
	n := &FNode{W: w, Name: name, P: w.Party(name)}
	w.Nodes[name] = n
	w.Order = append(w.Order, name)
	n.start()
	return n
}

func (n *FNode) start() {
	w := n.W
	n.ctx, n.cancel = context.WithCancel(w.ctx)
	fs, err := floodsub.NewFloodSub(n.ctx, w.Log, nil, &floodsub.Config{})
	if err != nil {
		panic(err)
	}
	n.FS = fs
	n.gen++
	ctx := n.ctx
	go func() { _ = fs.Execute(ctx) }()
}

// Crash stops the router and forgets all its state (subscriptions, peers, seen cache).
func (n *FNode) Crash() {
	n.cancel()
	n.FS.Close()
	for _, sr := range n.Subs {
		sr.Released = true
	}
	n.Subs = nil
}

// Restart starts a fresh router for the same identity.
func (n *FNode) Restart() { n.start() }

// Subscribe adds a subscription with a recording handler.
func (n *FNode) Subscribe(channel string) *SubRec {
	sub, err := n.FS.AddSubscription(n.ctx, n.P.Priv, channel)
	if err != nil {
		panic(err)
	}
	sr := &SubRec{N: n, ID: len(n.Subs), Channel: channel, Sub: sub}
	w := n.W
	sr.remove = sub.AddHandler(func(m pubsub.Message) {
		// a slow handler: scheduling point inside the callback (armed per world)
		w.S.Yield("harness/handler", n.Name+"/"+channel)
		dsim.EventSeq++
		g := GotMsg{From: w.Net.Names[m.GetFrom().String()], Data: string(m.GetData()), Seq: dsim.EventSeq, Step: w.S.Step}
		sr.Got = append(sr.Got, g)
		if sr.Released {
			sr.AfterRelease++
		}
		w.S.Logf("deliver %s/%s#%d from=%s %q", n.Name, channel, sr.ID, g.From, g.Data)
		if w.OnMsg != nil {
			w.OnMsg(n, sr, m.GetFrom(), m.GetData())
		}
	})
	n.Subs = append(n.Subs, sr)
	return sr
}

// Publish publishes data on a channel with the node's own key.
func (n *FNode) Publish(channel string, data string) error {
	p, ok := n.FS.(interface {
		Publish(ctx context.Context, channelID string, privKey crypto.PrivKey, data []byte) error
	})
	if !ok {
		panic("floodsub has no Publish")
	}
	n.W.S.Logf("publish %s/%s %q", n.Name, channel, data)
	return p.Publish(n.ctx, channel, n.P.Priv, []byte(data))
}

// Conn is one connection (a "link") between two endpoints; each end is either a router
// or a scripted peer.
type Conn struct {
	W      *World
	Name   string
	LinkID uint64
	A, B   *End
	Dead   bool
}

// End is one side of a Conn.
type End struct {
	C      *Conn
	Node   *FNode  // router side, or nil
	Script *Script // scripted side, or nil
	Strm   *node.SimStream
	Peer   *sig.Party // identity of this end
}

// Script is a harness-scripted floodsub peer.
type Script struct {
	W    *World
	Name string
	P    *sig.Party
	Sess *stream_packet.Session
	End  *End
	// Recv'd packets, in order.
	Subs []*floodsub.SubscriptionOpts
	Pubs []*peer.SignedMsg
	Err  error
}

// Connect joins two routers with a fresh stream pair (a new link tuple unless linkID != 0).
func (w *World) Connect(a, b *FNode, linkID uint64) *Conn {
	if linkID == 0 {
		w.linkID++
		linkID = w.linkID
	}
	name := fmt.Sprintf("c%d.%s-%s", len(w.Conns), a.Name, b.Name)
	sa, sb := w.Net.NewStreamPair(name)
	c := &Conn{W: w, Name: name, LinkID: linkID}
	c.A = &End{C: c, Node: a, Strm: sa, Peer: a.P}
	c.B = &End{C: c, Node: b, Strm: sb, Peer: b.P}
	w.Conns = append(w.Conns, c)
	w.S.Logf("connect %s link=%d", name, linkID)
	a.FS.AddPeerStream(pubsub.PeerLinkTuple{PeerID: b.P.ID, LinkID: linkID}, true, &node.StubMounted{Strm: sa, Peer: b.P.ID, Proto: floodsub.FloodSubID})
	b.FS.AddPeerStream(pubsub.PeerLinkTuple{PeerID: a.P.ID, LinkID: linkID}, false, &node.StubMounted{Strm: sb, Peer: a.P.ID, Proto: floodsub.FloodSubID})
	return c
}

// ConnectScript joins a router with a scripted peer.
func (w *World) ConnectScript(a *FNode, name string, linkID uint64) *Script {
	if linkID == 0 {
		w.linkID++
		linkID = w.linkID
	}
	cn := fmt.Sprintf("c%d.%s-%s", len(w.Conns), a.Name, name)
	sa, sb := w.Net.NewStreamPair(cn)
	c := &Conn{W: w, Name: cn, LinkID: linkID}
	sc := &Script{W: w, Name: name, P: w.Party(name)}
	c.A = &End{C: c, Node: a, Strm: sa, Peer: a.P}
	c.B = &End{C: c, Script: sc, Strm: sb, Peer: sc.P}
	sc.End = c.B
	sc.Sess = stream_packet.NewSession(sb, 2000000)
	w.Conns = append(w.Conns, c)
	// (as a task: the router may hold its mutex for a while when a peer exerts back-pressure,
	// and the driver must never wait for a lock)
	go a.FS.AddPeerStream(pubsub.PeerLinkTuple{PeerID: sc.P.ID, LinkID: linkID}, true, &node.StubMounted{Strm: sa, Peer: sc.P.ID, Proto: floodsub.FloodSubID})
	go sc.readLoop()
	return sc
}

func (sc *Script) readLoop() {
	for {
		pkt := &floodsub.Packet{}
		if err := sc.Sess.RecvMsg(pkt); err != nil {
			sc.Err = err
			return
		}
		sc.Subs = append(sc.Subs, pkt.GetSubscriptions()...)
		for _, so := range pkt.GetSubscriptions() {
			sc.W.AnnLog = append(sc.W.AnnLog, Ann{Peer: sc.Name, Conn: sc.End.C.Name, Channel: so.GetChannelId(), Subscribe: so.GetSubscribe()})
			sc.W.S.Logf("peer %s reads announcement on %s: %s subscribe=%v", sc.Name, sc.End.C.Name, so.GetChannelId(), so.GetSubscribe())
		}
		for _, m := range pkt.GetPublish() {
			sc.Pubs = append(sc.Pubs, m)
			if sc.W.OnScriptRecv != nil {
				sc.W.OnScriptRecv(sc, m)
			}
		}
	}
}

// Send writes a packet to the router.
func (sc *Script) Send(pkt *floodsub.Packet) { _ = sc.Sess.SendMsg(pkt) }

// SendRaw writes raw (already framed or deliberately broken) bytes.
func (sc *Script) SendRaw(b []byte) { _, _ = sc.End.Strm.Write(b) }

// Frame frames a packet the way stream_packet does (for corruption faults).
func Frame(pkt *floodsub.Packet) []byte {
	b, _ := pkt.MarshalVT()
	out := make([]byte, 4+len(b))
	binary.LittleEndian.PutUint32(out, uint32(len(b)))
	copy(out[4:], b)
	return out
}

// WantChannels tells the router which channels this scripted peer subscribes to.
func (sc *Script) WantChannels(sub bool, chs ...string) {
	pkt := &floodsub.Packet{}
	for _, c := range chs {
		pkt.Subscriptions = append(pkt.Subscriptions, &floodsub.SubscriptionOpts{ChannelId: c, Subscribe: sub})
	}
	sc.Send(pkt)
}

// Break kills a connection (both directions reset).
func (c *Conn) Break() {
	if c.Dead {
		return
	}
	c.Dead = true
	c.A.Strm.Reset()
	c.B.Strm.Reset()
	c.W.S.Logf("break %s", c.Name)
}

// Actions enumerates byte deliveries.
func (w *World) Actions(add func(dsim.Action)) { w.Net.Actions(add) }

// Idle reports no bytes in transit.
func (w *World) Idle() bool { return w.Net.Idle() }

// Close tears everything down.
func (w *World) Close() {
	w.cancel()
	for _, n := range w.Order {
		w.Nodes[n].FS.Close()
	}
	w.Net.Close()
}

// ParseFrames decodes all complete frames in a byte stream (wire tap).
func ParseFrames(all []byte) (pkts []*floodsub.Packet, ends []int) {
	off := 0
	for off+4 <= len(all) {
		n := int(binary.LittleEndian.Uint32(all[off:]))
		if off+4+n > len(all) {
			break
		}
		p := &floodsub.Packet{}
		if err := p.UnmarshalVT(all[off+4 : off+4+n]); err != nil {
			break
		}
		off += 4 + n
		pkts = append(pkts, p)
		ends = append(ends, off)
	}
	return
}
