// Package node is the NODE world: real controllerbus buses with the real peer
// controller and the real transport controller, over "simlink" transports whose links
// and streams are owned by the simulator.
package node

import (
	"context"
	"fmt"
	"io"
	"net"
	"os"
	"strings"
	"sync"

	core_test "github.com/aperturerobotics/bifrost/core/test"
	"github.com/aperturerobotics/bifrost/crypto"
	"github.com/aperturerobotics/bifrost/link"
	"github.com/aperturerobotics/bifrost/peer"
	peer_controller "github.com/aperturerobotics/bifrost/peer/controller"
	"github.com/aperturerobotics/bifrost/transport"
	"github.com/aperturerobotics/bifrost/transport/common/dialer"
	"github.com/aperturerobotics/bifrost/transport/common/pconn"
	transport_quic "github.com/aperturerobotics/bifrost/transport/common/quic"
	transport_controller "github.com/aperturerobotics/bifrost/transport/controller"
	"github.com/aperturerobotics/controllerbus/bus"
	"github.com/aperturerobotics/controllerbus/controller"
	"github.com/aperturerobotics/controllerbus/controller/resolver"
	"github.com/aperturerobotics/controllerbus/controller/resolver/static"
	"github.com/aperturerobotics/controllerbus/directive"
	"github.com/blang/semver/v4"
	"github.com/sirupsen/logrus"

	"verif/sim/dsim"
	"verif/sim/worlds/pnet"
	"verif/sim/worlds/sig"
)

// Net is the NODE world.
type Net struct {
	S      *dsim.Sim
	Log    *logrus.Entry
	ctx    context.Context
	cancel context.CancelFunc
	Nodes  []*Node
	mu     sync.Mutex
	links  []*SimLink
	strms  []*SimStream
	// pending one-shot simulator actions (late callbacks etc.), by name
	pending map[string]func()
	uuid    uint64
	Names   map[string]string // peer id -> short name
}

// NewNet creates the world.
func NewNet(s *dsim.Sim) *Net {
	lg := logrus.New()
	lg.SetOutput(io.Discard)
	lg.SetLevel(logrus.PanicLevel)
	if os.Getenv("DSIM_SYSLOG") != "" {
		// development aid: the system's own log lines go to the event log
		lg.SetLevel(logrus.DebugLevel)
		lg.SetOutput(logWriter{s})
		lg.SetFormatter(&logrus.TextFormatter{DisableTimestamp: true, DisableColors: true})
	}
	ctx, cancel := context.WithCancel(context.Background())
	n := &Net{S: s, Log: logrus.NewEntry(lg), ctx: ctx, cancel: cancel, pending: map[string]func(){}, Names: map[string]string{}}
	s.KeyAlias = func(k string) string { return k }
	return n
}

type logWriter struct{ s *dsim.Sim }

func (w logWriter) Write(b []byte) (int, error) {
	w.s.Logf("SYS %s", strings.TrimSpace(string(b)))
	return len(b), nil
}

// Node is one bus with a peer identity.
type Node struct {
	N      *Net
	Name   string
	P      *sig.Party
	Bus    bus.Bus
	SR     *static.Resolver
	ctx    context.Context
	cancel context.CancelFunc
	TCs    []*TC
	rels   []func()
}

// TC is one transport controller with its simlink transport.
type TC struct {
	Node *Node
	Name string
	P    *sig.Party
	Ctrl *transport_controller.Controller
	Tpt  *SimTransport
	Quic *pconn.Transport
	Rec  *RecHandler
}

// AddNode builds a bus. Identities lists the parties whose peer controllers run on
// this bus (the first one names the node).
func (n *Net) AddNode(name string, identities ...string) *Node {
	ctx, cancel := context.WithCancel(n.ctx)
	b, sr, err := core_test.NewTestingBus(ctx, n.Log)
	if err != nil {
		panic(err)
	}
	nd := &Node{N: n, Name: name, Bus: b, SR: sr, ctx: ctx, cancel: cancel}
	for i, idn := range identities {
		p := sig.NewParty(idn, 11)
		n.Names[p.IDs] = idn
		if i == 0 {
			nd.P = p
		}
		conf, err := peer_controller.NewConfigWithPrivKey(p.Priv)
		if err != nil {
			panic(err)
		}
		_, _, ref, err := bus.ExecOneOff(ctx, b, resolver.NewLoadControllerWithConfig(conf), nil, nil)
		if err != nil {
			panic(err)
		}
		nd.rels = append(nd.rels, ref.Release)
	}
	n.Nodes = append(n.Nodes, nd)
	return nd
}

// Party returns the deterministic party for a name (same derivation as AddNode).
func (n *Net) Party(name string) *sig.Party {
	p := sig.NewParty(name, 11)
	n.Names[p.IDs] = name
	return p
}

// AddTransport starts a real transport controller for identity idn on the node.
func (nd *Node) AddTransport(name, idn string) *TC { return nd.addTransport(name, idn, false) }

// AddTransportAnyPeer is AddTransport with an EMPTY configured peer id: the controller
// looks up whatever peer the bus has (which must be idn, the only identity on that bus).
func (nd *Node) AddTransportAnyPeer(name, idn string) *TC { return nd.addTransport(name, idn, true) }

// AddTransportLate is AddTransport with a slow transport constructor: the constructor is a
// scheduling point ("harness/transport-ctor") and the call does not wait for it, so the
// controller runs for a while without a transport (start-up / restart window). TC.Tpt is
// nil until the constructor has returned.
func (nd *Node) AddTransportLate(name, idn string) *TC {
	return nd.addTransportOpt(name, idn, false, true)
}

func (nd *Node) addTransport(name, idn string, anyPeer bool) *TC {
	return nd.addTransportOpt(name, idn, anyPeer, false)
}

func (nd *Node) addTransportOpt(name, idn string, anyPeer, late bool) *TC {
	n := nd.N
	p := n.Party(idn)
	tc := &TC{Node: nd, Name: name, P: p}
	lookup := p.ID
	if anyPeer {
		lookup = ""
	}
	n.uuid++
	tptUUID := 1000 + n.uuid
	ctor := func(ctx context.Context, le *logrus.Entry, pkey crypto.PrivKey, handler transport.TransportHandler) (transport.Transport, error) {
		pid, err := peer.IDFromPrivateKey(pkey)
		if err != nil {
			return nil, err
		}
		if late {
			n.S.Yield("harness/transport-ctor", name)
		}
		t := &SimTransport{TC: tc, uuid: tptUUID, peer: pid, Handler: handler}
		tc.Tpt = t
		return t, nil
	}
	info := controller.NewInfo("verif/simlink/"+name, semver.MustParse("0.0.1"), "simlink transport "+name)
	tc.Ctrl = transport_controller.NewController(n.Log, nd.Bus, info, lookup, false, ctor)
	rel, err := nd.Bus.AddController(nd.ctx, tc.Ctrl, nil)
	if err != nil {
		panic(err)
	}
	nd.rels = append(nd.rels, rel)
	if !late {
		if _, err := tc.Ctrl.GetTransport(nd.ctx); err != nil {
			panic(err)
		}
	}
	nd.TCs = append(nd.TCs, tc)
	return tc
}

// AddController adds a harness controller to the bus.
func (nd *Node) AddController(c controller.Controller) {
	rel, err := nd.Bus.AddController(nd.ctx, c, nil)
	if err != nil {
		panic(err)
	}
	nd.rels = append(nd.rels, rel)
}

// Shutdown stops the node's bus and controllers.
func (nd *Node) Shutdown() {
	nd.cancel()
	for _, r := range nd.rels {
		r()
	}
	nd.rels = nil
}

// Close tears the world down.
func (n *Net) Close() {
	n.mu.Lock()
	links := append([]*SimLink(nil), n.links...)
	strms := append([]*SimStream(nil), n.strms...)
	n.pending = map[string]func(){}
	n.mu.Unlock()
	n.cancel()
	for _, l := range links {
		l.kill()
	}
	for _, st := range strms {
		st.Reset()
	}
}

// Defer registers a one-shot simulator action (e.g. a late callback).
func (n *Net) Defer(name string, f func()) {
	n.mu.Lock()
	n.pending[name] = f
	n.mu.Unlock()
}

// Actions enumerates deliveries and pending one-shot actions.
func (n *Net) Actions(add func(dsim.Action)) {
	n.mu.Lock()
	names := make([]string, 0, len(n.pending))
	for k := range n.pending {
		names = append(names, k)
	}
	links := append([]*SimLink(nil), n.links...)
	strms := append([]*SimStream(nil), n.strms...)
	n.mu.Unlock()
	for _, k := range names {
		k := k
		add(dsim.Action{Name: k, Weight: 8, Fire: func() {
			n.mu.Lock()
			f := n.pending[k]
			delete(n.pending, k)
			n.mu.Unlock()
			if f != nil {
				f()
			}
		}})
	}
	for _, l := range links {
		if l.pendingOpens() > 0 {
			l := l
			add(dsim.Action{Name: "1dlv:open:" + l.Name, Weight: 10, Fire: l.deliverOpen})
		}
	}
	for _, st := range strms {
		if a, ok := st.end.W.DeliverAction(n.S); ok {
			add(a)
		}
	}
}

// AnyDeadlineHit reports whether any stream read ran into its (fake-clock) deadline:
// the driver stalled a stream header beyond the establish timeout.
func (n *Net) AnyDeadlineHit() bool {
	n.mu.Lock()
	defer n.mu.Unlock()
	for _, st := range n.strms {
		st.mu.Lock()
		h := st.DeadlineHit
		st.mu.Unlock()
		if h {
			return true
		}
	}
	return false
}

// Idle reports that no delivery or pending callback is outstanding.
func (n *Net) Idle() bool {
	n.mu.Lock()
	defer n.mu.Unlock()
	if len(n.pending) > 0 {
		return false
	}
	for _, l := range n.links {
		if l.pendingOpens() > 0 {
			return false
		}
	}
	for _, st := range n.strms {
		if st.end.W.InTransit() > 0 {
			return false
		}
	}
	return true
}

// SimTransport implements transport.Transport.
type SimTransport struct {
	TC      *TC
	uuid    uint64
	peer    peer.ID
	Handler transport.TransportHandler
}

func (t *SimTransport) Execute(ctx context.Context) error { <-ctx.Done(); return context.Canceled }
func (t *SimTransport) GetUUID() uint64                   { return t.uuid }
func (t *SimTransport) GetPeerID() peer.ID                { return t.peer }
func (t *SimTransport) Close() error                      { return nil }

// HandlerCtl is a tiny controller that resolves link.HandleMountedStream with fn.
type HandlerCtl struct {
	ID string
	// Match decides whether to handle the directive.
	Match func(d link.HandleMountedStream) bool
	Fn    func(ctx context.Context, ms link.MountedStream) error
}

func (h *HandlerCtl) GetControllerInfo() *controller.Info {
	return controller.NewInfo("verif/handler/"+h.ID, semver.MustParse("0.0.1"), "harness stream handler")
}
func (h *HandlerCtl) Execute(ctx context.Context) error { return nil }
func (h *HandlerCtl) Close() error                      { return nil }
func (h *HandlerCtl) HandleDirective(ctx context.Context, di directive.Instance) ([]directive.Resolver, error) {
	d, ok := di.GetDirective().(link.HandleMountedStream)
	if !ok || (h.Match != nil && !h.Match(d)) {
		return nil, nil
	}
	return directive.R(directive.NewValueResolver([]link.MountedStreamHandler{h}), nil)
}

// HandleMountedStream implements link.MountedStreamHandler.
func (h *HandlerCtl) HandleMountedStream(ctx context.Context, ms link.MountedStream) error {
	return h.Fn(ctx, ms)
}

var _ = fmt.Sprintf

// RecHandler wraps the TransportHandler the controller hands to a transport constructor
// and records every link the transport reports (C03 oracle: no hook needed).
type RecHandler struct {
	Inner  transport.TransportHandler
	OnEst  func(l link.Link)
	OnLost func(l link.Link)
}

func (r *RecHandler) HandleLinkEstablished(l link.Link) {
	if r.OnEst != nil {
		r.OnEst(l)
	}
	r.Inner.HandleLinkEstablished(l)
}
func (r *RecHandler) HandleLinkLost(l link.Link) {
	if r.OnLost != nil {
		r.OnLost(l)
	}
	r.Inner.HandleLinkLost(l)
}

// AddQuicTransport starts a real transport controller whose transport is the real
// pconn/QUIC transport over the given simulated PacketConn.
func (nd *Node) AddQuicTransport(name, idn string, pc net.PacketConn, static map[string]*dialer.DialerOpts, onEst func(l link.Link)) *TC {
	n := nd.N
	p := n.Party(idn)
	tc := &TC{Node: nd, Name: name, P: p}
	ctor := func(ctx context.Context, le *logrus.Entry, pkey crypto.PrivKey, handler transport.TransportHandler) (transport.Transport, error) {
		h := &RecHandler{Inner: handler, OnEst: onEst}
		tc.Rec = h
		opts := &pconn.Opts{Quic: &transport_quic.Opts{MaxIdleTimeoutDur: "60s", DisableKeepAlive: true, DisablePathMtuDiscovery: true}}
		t, err := pconn.NewTransport(ctx, le, pkey, h, opts, 0, pc, func(a string) (net.Addr, error) {
			// "@x" is an alias spelling of address "x" (a dial string that differs from its
			// resolved form, like a host name)
			return pnet.Addr(strings.TrimPrefix(a, "@")), nil
		}, static)
		if err != nil {
			return nil, err
		}
		tc.Quic = t
		return &simUDP{t}, nil
	}
	info := controller.NewInfo("verif/quic/"+name, semver.MustParse("0.0.1"), "pconn transport "+name)
	tc.Ctrl = transport_controller.NewController(n.Log, nd.Bus, info, p.ID, false, ctor)
	rel, err := nd.Bus.AddController(nd.ctx, tc.Ctrl, nil)
	if err != nil {
		panic(err)
	}
	nd.rels = append(nd.rels, rel)
	if _, err := tc.Ctrl.GetTransport(nd.ctx); err != nil {
		panic(err)
	}
	nd.TCs = append(nd.TCs, tc)
	return tc
}

// simUDP is what transport/udp.UDP is for the real UDP socket: the pconn transport plus
// the transport-type matcher that makes it a dialer.TransportDialer.
type simUDP struct{ *pconn.Transport }

func (u *simUDP) MatchTransportType(t string) bool { return t == "sim" }

// Ctx returns the node context.
func (nd *Node) Ctx() context.Context { return nd.ctx }
