package node

import (
	"context"
	"errors"
	"fmt"
	"io"
	"os"
	"sync"
	"time"

	"github.com/aperturerobotics/bifrost/link"
	"github.com/aperturerobotics/bifrost/peer"
	"github.com/aperturerobotics/bifrost/protocol"
	"github.com/aperturerobotics/bifrost/stream"

	"verif/sim/dsim"
)

// SimLink implements link.Link. It is a well-behaved link object: Close may be called
// many times, the first call makes the transport owe exactly one HandleLinkLost, which
// the simulator delivers as a pending action (so that it may be late).
type SimLink struct {
	N     *Net
	Name  string
	T     *SimTransport
	UUID  uint64
	Local peer.ID
	Rem   peer.ID
	RTpt  uint64
	Peer  *SimLink // remote side of the same link, nil for a standalone link

	mu         sync.Mutex
	closed     bool
	CloseCalls int
	dead       bool // killed at teardown: no callbacks any more
	accQ       []*SimStream
	accWake    chan struct{}
	opens      []*SimStream // stream opens in transit toward this side
	// LostReported counts HandleLinkLost callbacks issued for this link.
	LostReported int
	// EstReported counts HandleLinkEstablished callbacks issued for this link.
	EstReported int
	// NoAutoLost: the scenario reports the loss itself (misbehaving-transport scenarios).
	NoAutoLost bool
	// OpenedStreams counts OpenStream calls made by the system on this side.
	OpenedStreams int
	streamSeq     int
	// LostFn, if set, is invoked instead of ReportLost for the loss report the stub owes
	// after a system Close (lets a scenario route it through its model).
	LostFn func()
	// OnSysClose, if set, is called on the first Close call made by the system.
	OnSysClose func()
	// Opened lists the local ends of streams opened by the system on this side, in order.
	Opened []*SimStream
}

// NewLink creates a link object owned by transport t. It is not yet reported.
func (n *Net) NewLink(t *SimTransport, name string, uuid uint64, remote peer.ID) *SimLink {
	l := &SimLink{N: n, Name: name, T: t, UUID: uuid, Local: t.peer, Rem: remote, RTpt: 7, accWake: make(chan struct{})}
	n.mu.Lock()
	n.links = append(n.links, l)
	n.mu.Unlock()
	return l
}

// NewLinkPair creates the two sides of one link between transports a and b.
func (n *Net) NewLinkPair(a, b *SimTransport, name string, uuid uint64) (*SimLink, *SimLink) {
	la := n.NewLink(a, name+"@"+a.TC.Name, uuid, b.peer)
	lb := n.NewLink(b, name+"@"+b.TC.Name, uuid, a.peer)
	la.Peer, lb.Peer = lb, la
	la.RTpt, lb.RTpt = b.uuid, a.uuid
	return la, lb
}

func (l *SimLink) GetUUID() uint64                { return l.UUID }
func (l *SimLink) GetTransportUUID() uint64       { return l.T.uuid }
func (l *SimLink) GetRemotePeer() peer.ID         { return l.Rem }
func (l *SimLink) GetLocalPeer() peer.ID          { return l.Local }
func (l *SimLink) GetRemoteTransportUUID() uint64 { return l.RTpt }

// IsClosed reports whether Close was called.
func (l *SimLink) IsClosed() bool {
	l.mu.Lock()
	defer l.mu.Unlock()
	return l.closed
}

// ReportEstablished calls the transport handler (in its own goroutine: a transport task).
func (l *SimLink) ReportEstablished() {
	l.mu.Lock()
	l.EstReported++
	l.mu.Unlock()
	l.N.S.Logf("cb established %s uuid=%d", l.Name, l.UUID)
	go l.T.Handler.HandleLinkEstablished(l)
}

// ReportLost calls the transport handler's HandleLinkLost (a transport task).
func (l *SimLink) ReportLost() {
	l.mu.Lock()
	l.LostReported++
	dead := l.dead
	l.mu.Unlock()
	if dead {
		return
	}
	l.N.S.Logf("cb lost %s uuid=%d", l.Name, l.UUID)
	go l.T.Handler.HandleLinkLost(l)
}

// Close implements link.Link.
func (l *SimLink) Close() error {
	l.mu.Lock()
	l.CloseCalls++
	first := !l.closed
	l.closed = true
	if first {
		close(l.accWake)
		l.accWake = make(chan struct{})
	}
	dead := l.dead
	auto := !l.NoAutoLost
	l.mu.Unlock()
	if !first || dead {
		return nil
	}
	l.N.S.Logf("link closed by system %s", l.Name)
	if l.OnSysClose != nil {
		l.OnSysClose()
	}
	l.resetStreams()
	if auto {
		f := l.ReportLost
		if l.LostFn != nil {
			f = l.LostFn
		}
		l.N.Defer("1dlv:lost:"+l.Name, f)
	}
	if p := l.Peer; p != nil {
		l.N.Defer("1dlv:peer-loss:"+p.Name, p.RemoteGone)
	}
	return nil
}

// RemoteGone is the other side of the link going away: this side's transport notices
// and reports the loss.
func (l *SimLink) RemoteGone() {
	l.mu.Lock()
	already := l.closed
	l.closed = true
	if !already {
		close(l.accWake)
		l.accWake = make(chan struct{})
	}
	l.mu.Unlock()
	if already {
		return
	}
	l.resetStreams()
	l.ReportLost()
}

// Fail is the link-failure fault: both sides notice (each via its own pending action).
func (l *SimLink) Fail() {
	l.N.Defer("1dlv:peer-loss:"+l.Name, l.RemoteGone)
	if p := l.Peer; p != nil {
		l.N.Defer("1dlv:peer-loss:"+p.Name, p.RemoteGone)
	}
}

func (l *SimLink) kill() {
	l.mu.Lock()
	l.dead = true
	if !l.closed {
		l.closed = true
		close(l.accWake)
		l.accWake = make(chan struct{})
	}
	l.mu.Unlock()
}

func (l *SimLink) resetStreams() {
	l.N.mu.Lock()
	var mine []*SimStream
	for _, st := range l.N.strms {
		if st.L == l || (st.other != nil && st.other.L == l) {
			mine = append(mine, st)
		}
	}
	l.N.mu.Unlock()
	for _, st := range mine {
		st.Reset()
	}
}

func (l *SimLink) pendingOpens() int {
	l.mu.Lock()
	defer l.mu.Unlock()
	return len(l.opens)
}

func (l *SimLink) deliverOpen() {
	l.mu.Lock()
	if len(l.opens) == 0 {
		l.mu.Unlock()
		return
	}
	st := l.opens[0]
	l.opens = l.opens[1:]
	if l.closed {
		l.mu.Unlock()
		st.Reset()
		return
	}
	l.accQ = append(l.accQ, st)
	close(l.accWake)
	l.accWake = make(chan struct{})
	l.mu.Unlock()
}

// OpenStream implements link.Link: the remote end is queued toward the peer side.
func (l *SimLink) OpenStream(opts stream.OpenOpts) (stream.Stream, error) {
	l.mu.Lock()
	if l.closed {
		l.mu.Unlock()
		return nil, io.ErrClosedPipe
	}
	l.OpenedStreams++
	l.streamSeq++
	name := fmt.Sprintf("%s/s%d", l.Name, l.streamSeq)
	l.mu.Unlock()
	a, b := l.N.newStreamPair(l, l.Peer, name)
	l.mu.Lock()
	l.Opened = append(l.Opened, a)
	l.mu.Unlock()
	if p := l.Peer; p != nil {
		p.mu.Lock()
		p.opens = append(p.opens, b)
		p.mu.Unlock()
	}
	l.N.S.Logf("open-stream %s", name)
	return a, nil
}

// InjectStream makes the harness the remote opener of a stream on this link: the
// returned stream is the remote end, the local end is queued for AcceptStream.
func (l *SimLink) InjectStream() *SimStream {
	l.mu.Lock()
	l.streamSeq++
	name := fmt.Sprintf("%s/in%d", l.Name, l.streamSeq)
	l.mu.Unlock()
	remote, local := l.N.newStreamPair(nil, l, name)
	l.mu.Lock()
	l.opens = append(l.opens, local)
	l.mu.Unlock()
	return remote
}

// AcceptStream implements link.Link.
func (l *SimLink) AcceptStream() (stream.Stream, stream.OpenOpts, error) {
	for {
		l.mu.Lock()
		if len(l.accQ) > 0 {
			st := l.accQ[0]
			l.accQ = l.accQ[1:]
			l.mu.Unlock()
			return st, stream.OpenOpts{}, nil
		}
		if l.closed {
			l.mu.Unlock()
			return nil, stream.OpenOpts{}, io.EOF
		}
		w := l.accWake
		l.mu.Unlock()
		<-w
	}
}

// SimStream implements stream.Stream over a simulator-owned duplex byte stream.
type SimStream struct {
	N      *Net
	Name   string
	L      *SimLink // the link side this end belongs to (nil: harness end)
	end    *dsim.ByteEnd
	other  *SimStream
	mu     sync.Mutex
	rd     time.Time
	Closed bool
	// DeadlineHit: a Read on this end returned os.ErrDeadlineExceeded.
	DeadlineHit bool
}

func (n *Net) newStreamPair(la, lb *SimLink, name string) (*SimStream, *SimStream) {
	ea, eb := dsim.NewBytePair(name)
	a := &SimStream{N: n, Name: name + ".a", L: la, end: ea}
	b := &SimStream{N: n, Name: name + ".b", L: lb, end: eb}
	a.other, b.other = b, a
	n.mu.Lock()
	n.strms = append(n.strms, a, b)
	n.mu.Unlock()
	return a, b
}

// End exposes the underlying byte end (oracles).
func (s *SimStream) End() *dsim.ByteEnd { return s.end }

// Other returns the opposite end.
func (s *SimStream) Other() *SimStream { return s.other }

func (s *SimStream) Read(b []byte) (int, error) {
	s.mu.Lock()
	dl := s.rd
	s.mu.Unlock()
	if dl.IsZero() {
		return s.end.R.Read(b)
	}
	n, err := s.end.R.ReadDeadline(b, dl)
	if err == os.ErrDeadlineExceeded {
		s.mu.Lock()
		s.DeadlineHit = true
		s.mu.Unlock()
	}
	return n, err
}

func (s *SimStream) Write(b []byte) (int, error) { return s.end.W.Write(b) }

func (s *SimStream) SetReadDeadline(t time.Time) error {
	s.mu.Lock()
	s.rd = t
	s.mu.Unlock()
	return nil
}
func (s *SimStream) SetWriteDeadline(t time.Time) error { return nil }
func (s *SimStream) SetDeadline(t time.Time) error      { return s.SetReadDeadline(t) }

// Close implements stream.Stream. Closing is a scheduling point (a slow Close), armed
// only by worlds that list "harness/stream-close".
func (s *SimStream) Close() error {
	s.N.S.Yield("harness/stream-close", s.Name)
	s.mu.Lock()
	s.Closed = true
	s.mu.Unlock()
	return s.end.Close()
}

// Reset fails both directions.
func (s *SimStream) Reset() {
	s.end.R.Reset(dsim.ErrByteReset)
	s.end.W.Reset(dsim.ErrByteReset)
}

// ErrDeadline is returned by reads that hit their deadline.
var ErrDeadline = os.ErrDeadlineExceeded

var _ = errors.New
var _ context.Context

// NewStreamPair creates a free-standing duplex stream (no link): both ends are
// stream.Stream implementations over a simulator-owned byte stream.
func (n *Net) NewStreamPair(name string) (*SimStream, *SimStream) {
	return n.newStreamPair(nil, nil, name)
}

// StubMounted is a minimal link.MountedStream around a stream end.
type StubMounted struct {
	Strm  stream.Stream
	Peer  peer.ID
	Proto protocol.ID
	Lnk   link.MountedLink
}

func (m *StubMounted) GetStream() stream.Stream     { return m.Strm }
func (m *StubMounted) GetProtocolID() protocol.ID   { return m.Proto }
func (m *StubMounted) GetOpenOpts() stream.OpenOpts { return stream.OpenOpts{} }
func (m *StubMounted) GetPeerID() peer.ID           { return m.Peer }
func (m *StubMounted) GetLink() link.MountedLink    { return m.Lnk }
