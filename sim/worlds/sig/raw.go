package sig

import (
	"context"
	"fmt"

	"github.com/aperturerobotics/bifrost/hash"
	signaling "github.com/aperturerobotics/bifrost/signaling/rpc"

	"verif/sim/dsim"
)

// RawCall is a scripted Session call: the harness writes requests and observes (via
// the delivery tap, in wire order) everything the relay says to it.
type RawCall struct {
	W       *RawWorld
	P       *Party
	To      *Party
	Cli     *SessionClient
	St      *Stream
	Closed  bool   // harness closed it
	Ended   string // server's final error text once delivered ("" while open)
	Ann     string // last announcement: "" | "closed" | "open"
	AnnE    uint64 // epoch of the last Opened
	Anns    []string
	Got     []*RawMsg // RecvMsg deliveries in order
	Unacked *RawMsg
	LastOut *RawMsg
	Acks    []uint64
	Clears  []uint64
}

// RawMsg is a message submitted by the harness (unique payload).
type RawMsg struct {
	From, To  string
	Payload   string
	Seq       uint64
	Epoch     uint64 // epoch tag it was submitted under
	Call      string
	Msg       *signaling.SessionMsg
	Delivered int
}

// RawWorld drives the real relay with scripted parties.
type RawWorld struct {
	S        *dsim.Sim
	Net      *Net
	Parties  map[string]*Party
	Calls    []*RawCall
	Listens  []*ListenCall
	listenBy map[*Stream]*ListenCall
	byStrm   map[*Stream]*RawCall
	Msgs     map[string]*RawMsg // by payload
	seq      map[string]uint64
	ctx      context.Context
	cancel   context.CancelFunc
	// OnRecv is called when a RecvMsg is delivered to a call (driver goroutine).
	OnRecv func(c *RawCall, payload string, m *signaling.SessionMsg)
	// OnOther is called for every other server->client item.
	OnItem func(c *RawCall, resp *signaling.SessionResponse, it dsim.Item)
}

// NewRawWorld creates the world.
func NewRawWorld(s *dsim.Sim, names []string) *RawWorld {
	w := &RawWorld{S: s, Net: NewNet(s), Parties: map[string]*Party{}, byStrm: map[*Stream]*RawCall{}, Msgs: map[string]*RawMsg{}, seq: map[string]uint64{}}
	w.ctx, w.cancel = context.WithCancel(context.Background())
	for _, n := range names {
		p := NewParty(n, 7)
		w.Parties[n] = p
		w.Net.Names[p.IDs] = n
	}
	w.Net.TapS2C = w.tap
	return w
}

func (w *RawWorld) tap(st *Stream, it dsim.Item) {
	c := w.byStrm[st]
	if c == nil {
		return
	}
	if it.Ctl == "err" || it.Ctl == "eof" {
		c.Ended = it.Ctl + ":" + it.Err
		return
	}
	var m signaling.SessionResponse
	if err := m.UnmarshalVT(it.Data); err != nil {
		return
	}
	switch b := m.GetBody().(type) {
	case *signaling.SessionResponse_Opened:
		c.Ann, c.AnnE = "open", b.Opened
		c.Anns = append(c.Anns, fmt.Sprintf("open(%d)", b.Opened))
	case *signaling.SessionResponse_Closed:
		c.Ann = "closed"
		c.Anns = append(c.Anns, "closed")
	case *signaling.SessionResponse_RecvMsg:
		payload := string(b.RecvMsg.GetSignedMsg().GetData())
		rm := w.Msgs[payload]
		if rm != nil {
			rm.Delivered++
			c.Got = append(c.Got, rm)
			c.Unacked = rm
		}
		if w.OnRecv != nil {
			w.OnRecv(c, payload, b.RecvMsg)
		}
		return
	case *signaling.SessionResponse_AckMsg:
		c.Acks = append(c.Acks, b.AckMsg)
	case *signaling.SessionResponse_ClearMsg:
		c.Clears = append(c.Clears, b.ClearMsg)
	}
	if w.OnItem != nil {
		w.OnItem(c, &m, it)
	}
}

// Attach opens a new Session call from p to to and sends Init.
func (w *RawWorld) Attach(p, to string) *RawCall {
	P, T := w.Parties[p], w.Parties[to]
	cli := w.Net.RawSession(w.ctx, P)
	c := &RawCall{W: w, P: P, To: T, Cli: cli, St: cli.Stream()}
	w.byStrm[c.St] = c
	w.Calls = append(w.Calls, c)
	_ = cli.Send(&signaling.SessionRequest{Body: &signaling.SessionRequest_Init{Init: &signaling.SessionInit{PeerId: T.IDs}}})
	return c
}

// Live reports whether the harness may still use the call.
func (c *RawCall) Live() bool { return !c.Closed && c.Ended == "" && c.St.Alive() }

// Close closes the call from the client side.
func (c *RawCall) Close() {
	c.Closed = true
	_ = c.Cli.Close()
}

// SendMsg submits a signed message tagged with epoch.
func (c *RawCall) SendMsg(epoch uint64, payload string) *RawMsg {
	w := c.W
	k := c.P.Name + ">" + c.To.Name
	w.seq[k]++
	seq := w.seq[k]
	sm, err := signaling.NewSessionMsg(c.P.Priv, hash.HashType_HashType_BLAKE3, []byte(payload), seq)
	if err != nil {
		panic(err)
	}
	rm := &RawMsg{From: c.P.Name, To: c.To.Name, Payload: payload, Seq: seq, Epoch: epoch, Call: c.St.Name, Msg: sm}
	w.Msgs[payload] = rm
	c.LastOut = rm
	_ = c.Cli.Send(&signaling.SessionRequest{SessionSeqno: epoch, Body: &signaling.SessionRequest_SendMsg{SendMsg: sm}})
	return rm
}

// Ack acknowledges seq under epoch.
func (c *RawCall) Ack(epoch, seq uint64) {
	_ = c.Cli.Send(&signaling.SessionRequest{SessionSeqno: epoch, Body: &signaling.SessionRequest_AckMsg{AckMsg: seq}})
}

// Clear clears seq under epoch.
func (c *RawCall) Clear(epoch, seq uint64) {
	_ = c.Cli.Send(&signaling.SessionRequest{SessionSeqno: epoch, Body: &signaling.SessionRequest_ClearMsg{ClearMsg: seq}})
}

// Running returns the calls of p toward to whose relay handler is still running.
func (w *RawWorld) Running(p, to string) []*RawCall {
	var out []*RawCall
	for _, c := range w.Calls {
		if c.P.Name == p && c.To.Name == to && c.St.ServerRunning() {
			out = append(out, c)
		}
	}
	return out
}

// Idle reports that nothing is in transit on any stream.
func (w *RawWorld) Idle() bool {
	for _, st := range w.Net.Streams() {
		if st.C2S.InTransit() > 0 || st.S2C.InTransit() > 0 {
			return false
		}
	}
	return true
}

// Ctx returns the world context.
func (w *RawWorld) Ctx() context.Context { return w.ctx }

// Teardown ends everything.
func (w *RawWorld) Teardown() {
	w.cancel()
	w.Net.Close()
}

// ListenCall is a scripted Listen call.
type ListenCall struct {
	W      *RawWorld
	P      *Party
	Cli    *ListenClient
	St     *Stream
	Closed bool
	Ended  string
	Set    map[string]bool // announced minus withdrawn (party names)
	Events []string
	// Dup counts protocol anomalies: SetPeer for a peer already set, ClearPeer for one not set.
	Anomaly string
}

// Listen opens a Listen call for p.
func (w *RawWorld) Listen(p string) *ListenCall {
	P := w.Parties[p]
	cli := w.Net.RawListen(w.ctx, P)
	lc := &ListenCall{W: w, P: P, Cli: cli, St: cli.Stream(), Set: map[string]bool{}}
	if w.listenBy == nil {
		w.listenBy = map[*Stream]*ListenCall{}
		prev := w.Net.TapS2C
		w.Net.TapS2C = func(st *Stream, it dsim.Item) {
			if l := w.listenBy[st]; l != nil {
				l.tap(it)
				return
			}
			if prev != nil {
				prev(st, it)
			}
		}
	}
	w.listenBy[lc.St] = lc
	w.Listens = append(w.Listens, lc)
	return lc
}

func (l *ListenCall) tap(it dsim.Item) {
	if it.Ctl == "err" || it.Ctl == "eof" {
		l.Ended = it.Ctl + ":" + it.Err
		return
	}
	var m signaling.ListenResponse
	if err := m.UnmarshalVT(it.Data); err != nil {
		return
	}
	switch b := m.GetBody().(type) {
	case *signaling.ListenResponse_SetPeer:
		n := l.W.Net.Name(b.SetPeer)
		if l.Set[n] && l.Anomaly == "" {
			l.Anomaly = "SetPeer(" + n + ") while already set"
		}
		l.Set[n] = true
		l.Events = append(l.Events, "+"+n)
	case *signaling.ListenResponse_ClearPeer:
		n := l.W.Net.Name(b.ClearPeer)
		if !l.Set[n] && l.Anomaly == "" {
			l.Anomaly = "ClearPeer(" + n + ") while not set"
		}
		delete(l.Set, n)
		l.Events = append(l.Events, "-"+n)
	}
}

// Live reports whether the harness may still use the call.
func (l *ListenCall) Live() bool { return !l.Closed && l.Ended == "" && l.St.Alive() }

// Close closes the listen call from the client side.
func (l *ListenCall) Close() {
	l.Closed = true
	_ = l.Cli.Close()
}

// RunningListens returns listen calls of p whose relay handler is running.
func (w *RawWorld) RunningListens(p string) []*ListenCall {
	var out []*ListenCall
	for _, l := range w.Listens {
		if l.P.Name == p && l.St.ServerRunning() {
			out = append(out, l)
		}
	}
	return out
}
