// Package sig is the SIG world: the real signaling relay Server and real signaling
// Clients (or scripted raw streams) connected by simulator-owned RPC streams.
package sig

import (
	"context"
	"crypto/ed25519"
	"errors"
	"fmt"
	"io"
	"os"
	"sort"
	"strings"
	"sync"

	"github.com/aperturerobotics/bifrost/crypto"
	"github.com/aperturerobotics/bifrost/peer"
	signaling "github.com/aperturerobotics/bifrost/signaling/rpc"
	signaling_server "github.com/aperturerobotics/bifrost/signaling/rpc/server"
	"github.com/aperturerobotics/starpc/srpc"
	"github.com/sirupsen/logrus"

	"verif/sim/dsim"
)

type identKey struct{}

// Ident carries the authenticated identity of a server-side stream.
type Ident struct {
	Peer peer.ID
}

// Party is an identity (key pair) in the world.
type Party struct {
	Name string // short name: A, B, C …
	Priv crypto.PrivKey
	ID   peer.ID
	IDs  string // b58
}

// NewParty derives a deterministic Ed25519 identity from (salt, name).
func NewParty(name string, salt uint64) *Party {
	seed := make([]byte, ed25519.SeedSize)
	x := dsim.Mix(salt, dsim.HashStr(name))
	for i := range seed {
		seed[i] = byte(x >> (8 * (uint(i) % 8)))
		if i%8 == 7 {
			x = dsim.Mix(x, uint64(i))
		}
	}
	std := ed25519.NewKeyFromSeed(seed)
	priv, _, err := crypto.KeyPairFromStdKey(&std)
	if err != nil {
		panic(err)
	}
	id, err := peer.IDFromPrivateKey(priv)
	if err != nil {
		panic(err)
	}
	return &Party{Name: name, Priv: priv, ID: id, IDs: id.String()}
}

// Net owns the relay server and all RPC streams.
type Net struct {
	evSeq   int
	S       *dsim.Sim
	Server  *signaling_server.Server
	Log     *logrus.Entry
	mu      sync.Mutex
	streams []*Stream
	cnt     map[string]int
	ctx     context.Context
	cancel  context.CancelFunc
	// Handler, if set, replaces the real server (hostile relay scenarios):
	// called in its own goroutine per opened stream.
	Handler func(st *Stream)
	// names maps peer id string -> short party name for logs
	Names map[string]string
	// TapC2S / TapS2C observe every delivered wire item (driver goroutine).
	TapC2S, TapS2C func(st *Stream, it dsim.Item)
}

// NewNet builds the net with a real relay server.
func NewNet(s *dsim.Sim) *Net {
	lg := logrus.New()
	lg.SetOutput(io.Discard)
	lg.SetLevel(logrus.PanicLevel)
	if os.Getenv("DSIM_SYSLOG") != "" {
		// development aid: the system's own log lines go to the event log
		lg.SetLevel(logrus.DebugLevel)
		lg.SetOutput(sysLogWriter{s})
		lg.SetFormatter(&logrus.TextFormatter{DisableTimestamp: true, DisableColors: true})
	}
	le := logrus.NewEntry(lg)
	ctx, cancel := context.WithCancel(context.Background())
	n := &Net{S: s, Log: le, cnt: map[string]int{}, ctx: ctx, cancel: cancel, Names: map[string]string{}}
	s.KeyAlias = func(k string) string {
		for id, nm := range n.Names {
			k = strings.ReplaceAll(k, id, nm)
		}
		return k
	}
	n.Server = n.newServer()
	return n
}

type sysLogWriter struct{ s *dsim.Sim }

func (w sysLogWriter) Write(b []byte) (int, error) {
	w.s.Logf("SYS %s", strings.TrimSpace(string(b)))
	return len(b), nil
}

func (n *Net) newServer() *signaling_server.Server {
	return signaling_server.NewServerWithIdentify(n.Log, func(ctx context.Context) (peer.ID, error) {
		id, _ := ctx.Value(identKey{}).(*Ident)
		if id == nil || id.Peer == "" {
			return "", errors.New("no identity")
		}
		return id.Peer, nil
	})
}

// RestartRelay is the relay crash-restart fault: every stream fails at once and the relay
// comes back with empty state (it has no durable state: session epochs start over).
func (n *Net) RestartRelay() {
	for _, st := range n.Streams() {
		st.Reset("relay-restart")
	}
	n.Server = n.newServer()
	n.S.Logf("relay restarted (all streams reset, state lost)")
}

// Name returns the short name of a peer id string.
func (n *Net) Name(pid string) string {
	if v, ok := n.Names[pid]; ok {
		return v
	}
	if len(pid) > 6 {
		return "?" + pid[len(pid)-4:]
	}
	return "?" + pid
}

// Close tears the net down.
func (n *Net) Close() {
	n.cancel()
	n.mu.Lock()
	ss := append([]*Stream(nil), n.streams...)
	n.mu.Unlock()
	for _, st := range ss {
		st.Reset("teardown")
	}
}

// Stream is one RPC stream (Session or Listen) between a party and the relay.
type Stream struct {
	// StartSeq / DoneSeq order "the relay's handler for this stream was started" and "it
	// returned" over all streams (0 = not yet).
	StartSeq, DoneSeq int
	N                 *Net
	Name              string
	Kind              string // "session" | "listen"
	Owner             *Party
	C2S               *dsim.Pipe
	S2C               *dsim.Pipe
	cliCtx            context.Context
	cliCan            context.CancelFunc
	srvCtx            context.Context
	srvCan            context.CancelFunc

	mu        sync.Mutex
	started   bool
	SrvDone   bool
	SrvErr    error // what the server handler returned
	cliClosed bool
	dead      bool
	// OnS2C is called (driver goroutine) for every server->client item delivered.
	Tag string
}

// Streams returns live streams in creation order.
func (n *Net) Streams() []*Stream {
	n.mu.Lock()
	defer n.mu.Unlock()
	return append([]*Stream(nil), n.streams...)
}

// Open creates a new stream owned by p (client side) and queues its "open".
func (n *Net) Open(ctx context.Context, p *Party, kind string) *Stream {
	n.mu.Lock()
	k := kind[:1] + "/" + p.Name
	i := n.cnt[k]
	n.cnt[k] = i + 1
	name := fmt.Sprintf("%s/%d", k, i)
	st := &Stream{N: n, Name: name, Kind: kind, Owner: p}
	st.C2S = dsim.NewPipe(name + ">")
	st.S2C = dsim.NewPipe(name + "<")
	st.cliCtx, st.cliCan = context.WithCancel(ctx)
	st.srvCtx, st.srvCan = context.WithCancel(context.WithValue(n.ctx, identKey{}, &Ident{Peer: p.ID}))
	n.streams = append(n.streams, st)
	n.mu.Unlock()
	st.C2S.OnDeliver = st.onC2S
	st.S2C.OnDeliver = st.onS2C
	_ = st.C2S.Send(dsim.Item{Ctl: "open"})
	n.S.Logf("open %s", name)
	return st
}

// Describe renders a wire item for the event log.
func (st *Stream) Describe(it dsim.Item, c2s bool) string {
	if it.Ctl != "" {
		if it.Err != "" {
			return it.Ctl + "(" + it.Err + ")"
		}
		return it.Ctl
	}
	n := st.N
	if st.Kind == "listen" {
		if c2s {
			return "ListenRequest"
		}
		var m signaling.ListenResponse
		if m.UnmarshalVT(it.Data) != nil {
			return "garbage"
		}
		switch b := m.GetBody().(type) {
		case *signaling.ListenResponse_SetPeer:
			return "SetPeer(" + n.Name(b.SetPeer) + ")"
		case *signaling.ListenResponse_ClearPeer:
			return "ClearPeer(" + n.Name(b.ClearPeer) + ")"
		}
		return "ListenResponse(?)"
	}
	if c2s {
		var m signaling.SessionRequest
		if m.UnmarshalVT(it.Data) != nil {
			return "garbage"
		}
		e := m.GetSessionSeqno()
		switch b := m.GetBody().(type) {
		case *signaling.SessionRequest_Init:
			return fmt.Sprintf("Init(%s)", n.Name(b.Init.GetPeerId()))
		case *signaling.SessionRequest_SendMsg:
			return fmt.Sprintf("Send(e%d,#%d,%q)", e, b.SendMsg.GetSeqno(), trunc(b.SendMsg.GetSignedMsg().GetData()))
		case *signaling.SessionRequest_AckMsg:
			return fmt.Sprintf("Ack(e%d,#%d)", e, b.AckMsg)
		case *signaling.SessionRequest_ClearMsg:
			return fmt.Sprintf("Clear(e%d,#%d)", e, b.ClearMsg)
		}
		return "SessionRequest(?)"
	}
	var m signaling.SessionResponse
	if m.UnmarshalVT(it.Data) != nil {
		return "garbage"
	}
	switch b := m.GetBody().(type) {
	case *signaling.SessionResponse_Opened:
		return fmt.Sprintf("Opened(e%d)", b.Opened)
	case *signaling.SessionResponse_Closed:
		return "Closed"
	case *signaling.SessionResponse_RecvMsg:
		return fmt.Sprintf("Recv(#%d,%q)", b.RecvMsg.GetSeqno(), trunc(b.RecvMsg.GetSignedMsg().GetData()))
	case *signaling.SessionResponse_AckMsg:
		return fmt.Sprintf("Ack(#%d)", b.AckMsg)
	case *signaling.SessionResponse_ClearMsg:
		return fmt.Sprintf("Clear(#%d)", b.ClearMsg)
	}
	return "SessionResponse(?)"
}

func trunc(b []byte) string {
	if len(b) > 12 {
		return string(b[:12]) + "…"
	}
	return string(b)
}

func (st *Stream) onS2C(it dsim.Item) {
	st.N.S.Logf("  %s< %s", st.Name, st.Describe(it, false))
	if st.N.TapS2C != nil {
		st.N.TapS2C(st, it)
	}
}

func (st *Stream) onC2S(it dsim.Item) {
	st.N.S.Logf("  %s> %s", st.Name, st.Describe(it, true))
	if st.N.TapC2S != nil {
		st.N.TapC2S(st, it)
	}
	switch it.Ctl {
	case "open":
		st.mu.Lock()
		if st.started || st.dead {
			st.mu.Unlock()
			return
		}
		st.started = true
		st.N.evSeq++
		st.StartSeq = st.N.evSeq
		st.mu.Unlock()
		go st.serve()
	case "eof":
		// client closed / cancelled: the server-side context ends
		st.srvCan()
	}
}

func (st *Stream) serve() {
	n := st.N
	var err error
	if n.Handler != nil {
		n.Handler(st)
		st.FinishServer(nil)
		return
	}
	switch st.Kind {
	case "session":
		err = n.Server.Session(&srvSession{st})
	case "listen":
		var req signaling.ListenRequest
		if e := (&srvSession{st}).MsgRecv(&req); e != nil {
			err = e
		} else {
			err = n.Server.Listen(&req, &srvListen{srvSession{st}})
		}
	}
	st.FinishServer(err)
}

// SrvCtx returns the server-side stream context.
func (st *Stream) SrvCtx() context.Context { return st.srvCtx }

// FinishServer records the handler's return and tells the client.
func (st *Stream) FinishServer(err error) {
	st.mu.Lock()
	st.SrvDone = true
	st.SrvErr = err
	st.N.evSeq++
	st.DoneSeq = st.N.evSeq
	st.mu.Unlock()
	txt := "<nil>"
	if err != nil {
		txt = err.Error()
		_ = st.S2C.Send(dsim.Item{Ctl: "err", Err: txt})
	} else {
		_ = st.S2C.Send(dsim.Item{Ctl: "eof"})
	}
	st.N.S.Logf("srv-return %s: %s", st.Name, txt)
	st.srvCan()
}

// Reset is the stream-failure fault: both directions fail at once.
func (st *Stream) Reset(why string) {
	st.mu.Lock()
	if st.dead {
		st.mu.Unlock()
		return
	}
	st.dead = true
	st.mu.Unlock()
	st.C2S.Reset(dsim.ErrReset)
	st.S2C.Reset(dsim.ErrReset)
	st.srvCan()
	st.cliCan()
}

// CloseClean is the "transport ended the stream cleanly" fault: the client's next receive
// returns io.EOF (no error), the relay's handler sees its context end.
func (st *Stream) CloseClean() {
	st.mu.Lock()
	if st.dead {
		st.mu.Unlock()
		return
	}
	st.dead = true
	st.mu.Unlock()
	st.C2S.Reset(dsim.ErrReset)
	_ = st.S2C.Send(dsim.Item{Ctl: "eof"})
	st.srvCan()
}

// Alive reports whether the stream can still carry traffic in some direction.
func (st *Stream) Alive() bool {
	st.mu.Lock()
	defer st.mu.Unlock()
	return !st.dead
}

// ServerRunning reports whether the server handler is running.
func (st *Stream) ServerRunning() bool {
	st.mu.Lock()
	defer st.mu.Unlock()
	return st.started && !st.SrvDone
}

// Started reports whether the open was delivered.
func (st *Stream) Started() bool {
	st.mu.Lock()
	defer st.mu.Unlock()
	return st.started
}

// Finished: server returned (or never will) and nothing is in transit.
func (st *Stream) Finished() bool {
	st.mu.Lock()
	d := st.dead || (st.SrvDone && st.cliClosed)
	st.mu.Unlock()
	return d && st.C2S.InTransit() == 0 && st.S2C.InTransit() == 0
}

// GC drops finished streams from the list.
func (n *Net) GC() {
	n.mu.Lock()
	out := n.streams[:0]
	for _, st := range n.streams {
		if !st.Finished() {
			out = append(out, st)
		}
	}
	n.streams = out
	n.mu.Unlock()
}

// DeliveryActions enumerates one delivery action per non-empty pipe.
func (n *Net) DeliveryActions(add func(dsim.Action)) {
	for _, st := range n.Streams() {
		for _, p := range []*dsim.Pipe{st.C2S, st.S2C} {
			if p.InTransit() > 0 {
				p := p
				add(dsim.Action{Name: "1dlv:" + p.Name, Weight: 10, Fire: p.Deliver})
			}
		}
	}
}

// CleanCloseActions enumerates a clean-close fault per live started stream.
func (n *Net) CleanCloseActions(add func(dsim.Action), weight int) {
	for _, st := range n.Streams() {
		if !st.Alive() || !st.Started() {
			continue
		}
		st := st
		add(dsim.Action{Name: "5flt:clean-close:" + st.Name, Weight: weight, Fault: true, Fire: func() {
			n.S.Count("fault:stream-closed-cleanly")
			st.CloseClean()
		}})
	}
}

// ResetActions enumerates a reset fault per live started stream.
func (n *Net) ResetActions(add func(dsim.Action), weight int, filter func(*Stream) bool) {
	for _, st := range n.Streams() {
		if !st.Alive() || !st.Started() {
			continue
		}
		if filter != nil && !filter(st) {
			continue
		}
		st := st
		add(dsim.Action{Name: "5flt:reset:" + st.Name, Weight: weight, Fault: true, Fire: func() {
			n.S.Count("fault:stream-reset")
			st.Reset("fault")
		}})
	}
}

// ---- client end ---------------------------------------------------------------

type cliEnd struct{ st *Stream }

func (c *cliEnd) Context() context.Context { return c.st.cliCtx }

func (c *cliEnd) MsgSend(msg srpc.Message) error {
	if c.st.cliCtx.Err() != nil {
		return context.Canceled
	}
	b, err := msg.MarshalVT()
	if err != nil {
		return err
	}
	return c.st.C2S.Send(dsim.Item{Data: b})
}

func (c *cliEnd) MsgRecv(msg srpc.Message) error {
	for {
		it, err := c.st.S2C.Recv(c.st.cliCtx)
		if err != nil {
			return err
		}
		switch it.Ctl {
		case "":
			return msg.UnmarshalVT(it.Data)
		case "eof":
			return io.EOF
		case "err":
			return errors.New(it.Err)
		}
	}
}

func (c *cliEnd) CloseSend() error {
	return c.st.C2S.Send(dsim.Item{Ctl: "closesend"})
}

func (c *cliEnd) Close() error {
	st := c.st
	st.mu.Lock()
	already := st.cliClosed
	st.cliClosed = true
	st.mu.Unlock()
	if !already {
		_ = st.C2S.Send(dsim.Item{Ctl: "eof"})
		st.cliCan()
		// a closed stream delivers nothing more to its (former) reader: what the relay sent
		// and what arrives later is discarded, as a stream multiplexer does
		st.S2C.Reset(context.Canceled)
		st.N.S.Logf("cli-close %s", st.Name)
	}
	return nil
}

// SessionClient is the client end of a Session stream.
type SessionClient struct{ cliEnd }

func (x *SessionClient) Send(m *signaling.SessionRequest) error {
	if m == nil {
		return nil
	}
	return x.MsgSend(m)
}
func (x *SessionClient) Recv() (*signaling.SessionResponse, error) {
	m := new(signaling.SessionResponse)
	if err := x.MsgRecv(m); err != nil {
		return nil, err
	}
	return m, nil
}
func (x *SessionClient) RecvTo(m *signaling.SessionResponse) error { return x.MsgRecv(m) }

// Stream returns the underlying stream.
func (x *SessionClient) Stream() *Stream { return x.st }

// ListenClient is the client end of a Listen stream.
type ListenClient struct{ cliEnd }

func (x *ListenClient) Recv() (*signaling.ListenResponse, error) {
	m := new(signaling.ListenResponse)
	if err := x.MsgRecv(m); err != nil {
		return nil, err
	}
	return m, nil
}
func (x *ListenClient) RecvTo(m *signaling.ListenResponse) error { return x.MsgRecv(m) }

// Stream returns the underlying stream.
func (x *ListenClient) Stream() *Stream { return x.st }

// RPCClient implements signaling.SRPCSignalingClient for one party.
type RPCClient struct {
	N *Net
	P *Party
	// OnOpen is called for each new stream.
	OnOpen func(st *Stream)
}

func (c *RPCClient) SRPCClient() srpc.Client { return nil }

func (c *RPCClient) Listen(ctx context.Context, in *signaling.ListenRequest) (signaling.SRPCSignaling_ListenClient, error) {
	st := c.N.Open(ctx, c.P, "listen")
	if c.OnOpen != nil {
		c.OnOpen(st)
	}
	lc := &ListenClient{cliEnd{st}}
	if err := lc.MsgSend(in); err != nil {
		return nil, err
	}
	if err := lc.CloseSend(); err != nil {
		return nil, err
	}
	return lc, nil
}

func (c *RPCClient) Session(ctx context.Context) (signaling.SRPCSignaling_SessionClient, error) {
	st := c.N.Open(ctx, c.P, "session")
	if c.OnOpen != nil {
		c.OnOpen(st)
	}
	return &SessionClient{cliEnd{st}}, nil
}

// RawSession opens a session stream for a scripted party.
func (n *Net) RawSession(ctx context.Context, p *Party) *SessionClient {
	return &SessionClient{cliEnd{n.Open(ctx, p, "session")}}
}

// RawListen opens a listen stream for a scripted party.
func (n *Net) RawListen(ctx context.Context, p *Party) *ListenClient {
	lc := &ListenClient{cliEnd{n.Open(ctx, p, "listen")}}
	_ = lc.MsgSend(&signaling.ListenRequest{})
	_ = lc.CloseSend()
	return lc
}

// ---- server end ---------------------------------------------------------------

type srvSession struct{ st *Stream }

func (s *srvSession) Context() context.Context { return s.st.srvCtx }

func (s *srvSession) MsgSend(msg srpc.Message) error {
	if s.st.srvCtx.Err() != nil {
		return context.Canceled
	}
	b, err := msg.MarshalVT()
	if err != nil {
		return err
	}
	return s.st.S2C.Send(dsim.Item{Data: b})
}

func (s *srvSession) MsgRecv(msg srpc.Message) error {
	for {
		it, err := s.st.C2S.Recv(s.st.srvCtx)
		if err != nil {
			return err
		}
		switch it.Ctl {
		case "":
			return msg.UnmarshalVT(it.Data)
		case "open":
			continue
		case "closesend":
			if s.st.Kind == "listen" {
				continue
			}
			return io.EOF
		case "eof":
			return io.EOF
		}
	}
}

func (s *srvSession) CloseSend() error { return nil }
func (s *srvSession) Close() error     { return nil }

func (s *srvSession) Send(m *signaling.SessionResponse) error { return s.MsgSend(m) }
func (s *srvSession) SendAndClose(m *signaling.SessionResponse) error {
	if m != nil {
		return s.MsgSend(m)
	}
	return nil
}
func (s *srvSession) Recv() (*signaling.SessionRequest, error) {
	m := new(signaling.SessionRequest)
	if err := s.MsgRecv(m); err != nil {
		return nil, err
	}
	return m, nil
}
func (s *srvSession) RecvTo(m *signaling.SessionRequest) error { return s.MsgRecv(m) }

type srvListen struct{ srvSession }

func (s *srvListen) Send(m *signaling.ListenResponse) error { return s.MsgSend(m) }
func (s *srvListen) SendAndClose(m *signaling.ListenResponse) error {
	if m != nil {
		return s.MsgSend(m)
	}
	return nil
}

// SortedNames is a helper for canonical iteration over a string-keyed map.
func SortedNames[V any](m map[string]V) []string {
	ks := make([]string, 0, len(m))
	for k := range m {
		ks = append(ks, k)
	}
	sort.Strings(ks)
	return ks
}
