package sig

import (
	"context"
	"fmt"
	"sync"

	signaling "github.com/aperturerobotics/bifrost/signaling/rpc"
	signaling_client "github.com/aperturerobotics/bifrost/signaling/rpc/client"
	"github.com/aperturerobotics/util/backoff"

	"verif/sim/dsim"
)

// SendOp is one application-level Send.
type SendOp struct {
	From, To  string
	Payload   string
	StartStep int
	Done      bool
	Err       error
	DoneStep  int
	Cancelled bool
	cancel    context.CancelFunc
	Msg       *signaling.SessionMsg
}

// RecvEv is one application-level Recv completion.
type RecvEv struct {
	At      string // receiving party
	From    string
	Payload string
	Raw     []byte // marshalled SessionMsg as handed to the application
	Step    int
	Seq     int // global event order
}

// ClientNode is a real signaling client plus its application tasks.
type ClientNode struct {
	W         *ClientWorld
	P         *Party
	C         *signaling_client.Client
	RPC       *RPCClient
	ctx       context.Context
	cancel    context.CancelFunc
	Refs      map[string]*signaling_client.ClientPeerRef // by remote party name
	refCancel map[string]context.CancelFunc
	// ManualRecv: no receive loop; the application receives when the driver says so
	// (StartRecv), one call at a time per peer.
	ManualRecv bool
	RecvBusy   map[string]bool
	// ListenEvents records handler callbacks: "reset" | "+X" | "-X"
	ListenEvents []string
}

// ClientWorld is the shared part of scenarios that use real clients.
type ClientWorld struct {
	S       *dsim.Sim
	Net     *Net
	Parties map[string]*Party
	Nodes   map[string]*ClientNode
	mu      sync.Mutex
	Sends   []*SendOp
	Recvs   []RecvEv
	evSeq   int
	ctx     context.Context
	cancel  context.CancelFunc
	// Sessions opened per party (for probes)
	OpenCount map[string]int
	// OnRecv / OnSendDone are optional oracle callbacks (called on system goroutines).
	OnRecv     func(ev RecvEv, m *signaling.SessionMsg)
	OnSendDone func(op *SendOp)
}

// NewClientWorld creates parties names[...] and the net.
func NewClientWorld(s *dsim.Sim, names []string) *ClientWorld {
	w := &ClientWorld{S: s, Net: NewNet(s), Parties: map[string]*Party{}, Nodes: map[string]*ClientNode{}, OpenCount: map[string]int{}}
	w.ctx, w.cancel = context.WithCancel(context.Background())
	for _, n := range names {
		p := NewParty(n, 7)
		w.Parties[n] = p
		w.Net.Names[p.IDs] = n
	}
	return w
}

// AddClient constructs a real client for party name.
func (w *ClientWorld) AddClient(name string, bo *backoff.Backoff) *ClientNode {
	p := w.Parties[name]
	cn := &ClientNode{W: w, P: p, Refs: map[string]*signaling_client.ClientPeerRef{}}
	cn.RPC = &RPCClient{N: w.Net, P: p, OnOpen: func(st *Stream) {
		w.mu.Lock()
		w.OpenCount[name+"/"+st.Kind]++
		w.mu.Unlock()
	}}
	c, err := signaling_client.NewClient(w.Net.Log, cn.RPC, p.Priv, bo)
	if err != nil {
		panic(err)
	}
	cn.C = c
	cn.ctx, cn.cancel = context.WithCancel(w.ctx)
	c.SetContext(cn.ctx)
	w.Nodes[name] = cn
	return cn
}

// AddRef adds a peer ref to remote and starts the application receive loop.
func (cn *ClientNode) AddRef(remote string) {
	if cn.Refs[remote] != nil {
		return
	}
	w := cn.W
	ref := cn.C.AddPeerRef(w.Parties[remote].IDs)
	cn.Refs[remote] = ref
	rctx, rcancel := context.WithCancel(cn.ctx)
	if cn.refCancel == nil {
		cn.refCancel = map[string]context.CancelFunc{}
	}
	cn.refCancel[remote] = rcancel
	w.S.Logf("addref %s->%s", cn.P.Name, remote)
	if cn.ManualRecv {
		return
	}
	go func() {
		for {
			m, err := ref.Recv(rctx)
			if err != nil {
				return
			}
			raw, _ := m.MarshalVT()
			w.mu.Lock()
			w.evSeq++
			ev := RecvEv{At: cn.P.Name, From: remote, Payload: string(m.GetSignedMsg().GetData()), Raw: raw, Step: w.S.Step, Seq: w.evSeq}
			w.Recvs = append(w.Recvs, ev)
			w.mu.Unlock()
			w.S.Logf("recv %s<-%s %q", cn.P.Name, remote, ev.Payload)
			w.S.Count("done:recv")
			if w.OnRecv != nil {
				w.OnRecv(ev, m)
			}
		}
	}()
}

// StartRecv issues one application Recv call for remote (manual mode), as a task.
func (cn *ClientNode) StartRecv(remote string) {
	ref := cn.Refs[remote]
	if ref == nil || cn.RecvBusy[remote] {
		return
	}
	if cn.RecvBusy == nil {
		cn.RecvBusy = map[string]bool{}
	}
	cn.RecvBusy[remote] = true
	w := cn.W
	rctx, rcancel := context.WithCancel(cn.ctx)
	prev := cn.refCancel[remote]
	cn.refCancel[remote] = func() { rcancel(); prev() }
	go func() {
		m, err := ref.Recv(rctx)
		cn.RecvBusy[remote] = false
		if err != nil || m == nil {
			return
		}
		raw, _ := m.MarshalVT()
		w.mu.Lock()
		w.evSeq++
		ev := RecvEv{At: cn.P.Name, From: remote, Payload: string(m.GetSignedMsg().GetData()), Raw: raw, Step: w.S.Step, Seq: w.evSeq}
		w.Recvs = append(w.Recvs, ev)
		w.mu.Unlock()
		w.S.Logf("recv %s<-%s %q", cn.P.Name, remote, ev.Payload)
		w.S.Count("done:recv")
		if w.OnRecv != nil {
			w.OnRecv(ev, m)
		}
	}()
}

// RecvExpired is an application Recv call whose context is already done (a receive loop with
// per-call deadlines): it returns at once. A message it returns counts as received by the
// application; if it returns an error the application received nothing.
func (cn *ClientNode) RecvExpired(remote string) {
	ref := cn.Refs[remote]
	if ref == nil {
		return
	}
	w := cn.W
	ctx, cancel := context.WithCancel(cn.ctx)
	cancel()
	m, err := ref.Recv(ctx)
	w.S.Logf("recv-with-expired-context %s<-%s err=%v got=%v", cn.P.Name, remote, err, m != nil)
	if err != nil || m == nil {
		return
	}
	raw, _ := m.MarshalVT()
	w.mu.Lock()
	w.evSeq++
	ev := RecvEv{At: cn.P.Name, From: remote, Payload: string(m.GetSignedMsg().GetData()), Raw: raw, Step: w.S.Step, Seq: w.evSeq}
	w.Recvs = append(w.Recvs, ev)
	w.mu.Unlock()
	w.S.Count("done:recv")
	if w.OnRecv != nil {
		w.OnRecv(ev, m)
	}
}

// ReleaseRef releases the peer ref to remote (the application is done with that peer):
// its receive loop ends, pending sends on it are cancelled by their owner, the client
// drops the peer tracker (and with it the message numbering) when this was the last ref.
func (cn *ClientNode) ReleaseRef(remote string) {
	ref := cn.Refs[remote]
	if ref == nil {
		return
	}
	delete(cn.Refs, remote)
	cn.refCancel[remote]()
	ref.Release()
	cn.W.S.Logf("releaseref %s->%s", cn.P.Name, remote)
}

// StartSend launches an application Send.
func (cn *ClientNode) StartSend(remote, payload string) *SendOp {
	w := cn.W
	ref := cn.Refs[remote]
	ctx, cancel := context.WithCancel(cn.ctx)
	op := &SendOp{From: cn.P.Name, To: remote, Payload: payload, StartStep: w.S.Step, cancel: cancel}
	w.mu.Lock()
	w.Sends = append(w.Sends, op)
	w.mu.Unlock()
	w.S.Logf("send-start %s->%s %q", op.From, op.To, payload)
	go func() {
		m, err := ref.Send(ctx, []byte(payload))
		w.mu.Lock()
		w.evSeq++
		op.Done, op.Err, op.DoneStep, op.Msg = true, err, w.S.Step, m
		w.mu.Unlock()
		w.S.Logf("send-done %s->%s %q err=%v", op.From, op.To, payload, err)
		if err == nil {
			w.S.Count("done:send")
		}
		if w.OnSendDone != nil {
			w.OnSendDone(op)
		}
	}()
	return op
}

// Cancel cancels the send.
func (op *SendOp) Cancel() {
	op.Cancelled = true
	op.cancel()
}

// PendingSends returns sends not yet returned.
func (w *ClientWorld) PendingSends() []*SendOp {
	w.mu.Lock()
	defer w.mu.Unlock()
	var out []*SendOp
	for _, op := range w.Sends {
		if !op.Done {
			out = append(out, op)
		}
	}
	return out
}

// Snapshot returns copies of sends and receives.
func (w *ClientWorld) Snapshot() ([]*SendOp, []RecvEv) {
	w.mu.Lock()
	defer w.mu.Unlock()
	return append([]*SendOp(nil), w.Sends...), append([]RecvEv(nil), w.Recvs...)
}

// Received reports whether party at got payload from from.
func (w *ClientWorld) Received(at, from, payload string) bool {
	w.mu.Lock()
	defer w.mu.Unlock()
	for _, r := range w.Recvs {
		if r.At == at && r.From == from && r.Payload == payload {
			return true
		}
	}
	return false
}

// SetListen enables the listen routine on a node, recording handler callbacks.
func (cn *ClientNode) SetListen() {
	w := cn.W
	cn.C.SetListenHandler(func(ctx context.Context, reset, added bool, pid string) {
		ev := "reset"
		if !reset {
			sign := "-"
			if added {
				sign = "+"
			}
			ev = sign + w.Net.Name(pid)
		}
		w.mu.Lock()
		cn.ListenEvents = append(cn.ListenEvents, ev)
		w.mu.Unlock()
		w.S.Logf("listen-ev %s %s", cn.P.Name, ev)
	})
}

// Teardown cancels everything.
func (w *ClientWorld) Teardown() {
	for _, n := range SortedNames(w.Nodes) {
		w.Nodes[n].C.ClearContext()
	}
	w.cancel()
	w.Net.Close()
}

// Describe renders a send for diagnostics.
func (op *SendOp) Describe() string {
	return fmt.Sprintf("%s->%s %q done=%v err=%v", op.From, op.To, op.Payload, op.Done, op.Err)
}
