// Package pnet is the simulator-owned unreliable datagram network that sits under
// net.PacketConn (QUIC world): loss, duplication, reordering, corruption, delay,
// partitions and address rebinding are decided by the driver.
package pnet

import (
	"fmt"
	"net"
	"os"
	"sort"
	"sync"
	"time"

	"verif/sim/dsim"
)

// Addr is a simulated datagram address.
type Addr string

func (a Addr) Network() string { return "sim" }
func (a Addr) String() string  { return string(a) }

// Packet is a datagram in transit.
type Packet struct {
	From, To Addr
	Data     []byte
	Seq      int
	Owner    string // name of the endpoint that sent it (ground truth)
}

// Net is the datagram network.
type Net struct {
	S       *dsim.Sim
	mu      sync.Mutex
	bound   map[Addr]*Conn // address -> endpoint currently bound to it
	transit []*Packet
	seq     int
	// Partition, if set, drops packets for which it returns true at delivery.
	Blocked                                   map[string]bool // "from>to"
	Dropped, Delivered, Duplicated, Corrupted int
	// Senders records, per "from>to" flow, the names of the endpoints whose packets
	// were delivered on it (ground truth for authentication oracles).
	Senders map[string]map[string]bool
	all     []*Conn
}

// CloseAll closes every endpoint (teardown).
func (n *Net) CloseAll() {
	n.mu.Lock()
	cs := append([]*Conn(nil), n.all...)
	n.transit = nil
	n.mu.Unlock()
	for _, c := range cs {
		_ = c.Close()
	}
}

// SendersFrom returns the endpoint names that delivered packets with source address from
// (to any destination).
func (n *Net) SendersFrom(from Addr) []string {
	n.mu.Lock()
	defer n.mu.Unlock()
	set := map[string]bool{}
	pre := string(from) + ">"
	for k, m := range n.Senders {
		if len(k) > len(pre) && k[:len(pre)] == pre {
			for e := range m {
				set[e] = true
			}
		}
	}
	var out []string
	for e := range set {
		out = append(out, e)
	}
	sort.Strings(out)
	return out
}

// SendersOf returns the endpoint names that delivered packets from -> to.
func (n *Net) SendersOf(from, to Addr) []string {
	n.mu.Lock()
	defer n.mu.Unlock()
	var out []string
	for k := range n.Senders[string(from)+">"+string(to)] {
		out = append(out, k)
	}
	sort.Strings(out)
	return out
}

// New creates the network.
func New(s *dsim.Sim) *Net {
	return &Net{S: s, bound: map[Addr]*Conn{}, Blocked: map[string]bool{}}
}

// Conn implements net.PacketConn.
type Conn struct {
	N      *Net
	Name   string // endpoint name (ground truth owner)
	addr   Addr
	mu     sync.Mutex
	inbox  []*Packet
	wake   chan struct{}
	closed bool
	rd     time.Time
}

// Listen creates an endpoint bound to addr.
func (n *Net) Listen(name string, addr Addr) *Conn {
	c := &Conn{N: n, Name: name, addr: addr, wake: make(chan struct{})}
	n.mu.Lock()
	n.bound[addr] = c
	n.all = append(n.all, c)
	n.mu.Unlock()
	return c
}

// Rebind makes addr reach c from now on (address rebinding fault). c keeps answering
// from its own LocalAddr unless that equals addr.
func (n *Net) Rebind(addr Addr, c *Conn) {
	n.mu.Lock()
	n.bound[addr] = c
	n.mu.Unlock()
}

// BoundName returns the name of the endpoint an address currently reaches.
func (n *Net) BoundName(addr Addr) string {
	n.mu.Lock()
	defer n.mu.Unlock()
	if c := n.bound[addr]; c != nil {
		return c.Name
	}
	return ""
}

func (c *Conn) bcast() {
	close(c.wake)
	c.wake = make(chan struct{})
}

// ReadFrom implements net.PacketConn.
func (c *Conn) ReadFrom(p []byte) (int, net.Addr, error) {
	for {
		c.mu.Lock()
		if c.closed {
			c.mu.Unlock()
			return 0, nil, net.ErrClosed
		}
		if len(c.inbox) > 0 {
			pk := c.inbox[0]
			c.inbox = c.inbox[1:]
			c.mu.Unlock()
			n := copy(p, pk.Data)
			return n, pk.From, nil
		}
		w := c.wake
		dl := c.rd
		c.mu.Unlock()
		if dl.IsZero() {
			<-w
			continue
		}
		d := time.Until(dl)
		if d <= 0 {
			return 0, nil, os.ErrDeadlineExceeded
		}
		t := time.NewTimer(d)
		select {
		case <-w:
			t.Stop()
		case <-t.C:
			return 0, nil, os.ErrDeadlineExceeded
		}
	}
}

// WriteTo implements net.PacketConn.
func (c *Conn) WriteTo(p []byte, addr net.Addr) (int, error) {
	c.mu.Lock()
	closed := c.closed
	c.mu.Unlock()
	if closed {
		return 0, net.ErrClosed
	}
	n := c.N
	n.mu.Lock()
	n.seq++
	pk := &Packet{From: c.addr, To: Addr(addr.String()), Data: append([]byte(nil), p...), Seq: n.seq, Owner: c.Name}
	n.transit = append(n.transit, pk)
	n.mu.Unlock()
	return len(p), nil
}

func (c *Conn) Close() error {
	c.mu.Lock()
	if !c.closed {
		c.closed = true
		c.bcast()
	}
	c.mu.Unlock()
	return nil
}
func (c *Conn) LocalAddr() net.Addr { return c.addr }
func (c *Conn) SetDeadline(t time.Time) error {
	return c.SetReadDeadline(t)
}
func (c *Conn) SetReadDeadline(t time.Time) error {
	c.mu.Lock()
	c.rd = t
	c.bcast()
	c.mu.Unlock()
	return nil
}
func (c *Conn) SetWriteDeadline(t time.Time) error { return nil }

// flows groups transit packets by (from,to), oldest first.
func (n *Net) flows() map[string][]*Packet {
	f := map[string][]*Packet{}
	for _, p := range n.transit {
		k := string(p.From) + ">" + string(p.To)
		f[k] = append(f[k], p)
	}
	return f
}

func (n *Net) remove(p *Packet) {
	for i, q := range n.transit {
		if q == p {
			n.transit = append(n.transit[:i], n.transit[i+1:]...)
			return
		}
	}
}

func (n *Net) deliver(p *Packet) {
	n.mu.Lock()
	n.remove(p)
	dst := n.bound[p.To]
	blocked := n.Blocked[string(p.From)+">"+string(p.To)]
	n.mu.Unlock()
	if dst == nil || blocked {
		n.Dropped++
		return
	}
	n.mu.Lock()
	k := string(p.From) + ">" + string(p.To)
	if n.Senders == nil {
		n.Senders = map[string]map[string]bool{}
	}
	if n.Senders[k] == nil {
		n.Senders[k] = map[string]bool{}
	}
	n.Senders[k][p.Owner] = true
	n.mu.Unlock()
	dst.mu.Lock()
	if !dst.closed {
		dst.inbox = append(dst.inbox, p)
		dst.bcast()
		n.Delivered++
	}
	dst.mu.Unlock()
}

// InTransit returns the number of queued packets.
func (n *Net) InTransit() int {
	n.mu.Lock()
	defer n.mu.Unlock()
	return len(n.transit)
}

// Actions enumerates per-flow delivery and (if faults) loss/dup/reorder/corrupt actions.
func (n *Net) Actions(add func(dsim.Action), faults bool, lossBudget *int) {
	n.mu.Lock()
	f := n.flows()
	n.mu.Unlock()
	keys := make([]string, 0, len(f))
	for k := range f {
		keys = append(keys, k)
	}
	sort.Strings(keys)
	s := n.S
	for _, k := range keys {
		k := k
		ps := f[k]
		head := ps[0]
		add(dsim.Action{Name: "1pkt:" + k, Weight: 20, Fire: func() { n.deliver(head) }})
		if !faults || lossBudget == nil || *lossBudget <= 0 {
			continue
		}
		if len(ps) > 1 {
			second := ps[1]
			add(dsim.Action{Name: "5flt:reorder:" + k, Weight: 1, Fault: true, Fire: func() {
				*lossBudget--
				s.Count("fault:packet-reorder")
				n.deliver(second)
			}})
		}
		add(dsim.Action{Name: "5flt:drop:" + k, Weight: 1, Fault: true, Fire: func() {
			*lossBudget--
			s.Count("fault:packet-loss")
			n.mu.Lock()
			n.remove(head)
			n.mu.Unlock()
			n.Dropped++
		}})
		add(dsim.Action{Name: "5flt:dup:" + k, Weight: 1, Fault: true, Fire: func() {
			*lossBudget--
			s.Count("fault:packet-dup")
			n.mu.Lock()
			n.seq++
			cp := *head
			cp.Seq = n.seq
			cp.Data = append([]byte(nil), head.Data...)
			n.transit = append(n.transit, &cp)
			n.mu.Unlock()
			n.Duplicated++
		}})
		add(dsim.Action{Name: "5flt:corrupt:" + k, Weight: 1, Fault: true, Fire: func() {
			*lossBudget--
			s.Count("fault:packet-corrupt")
			i := s.Tape.Draw(len(head.Data), "corrupt-byte")
			head.Data[i] ^= byte(1 << uint(s.Tape.Draw(8, "corrupt-bit")))
			n.Corrupted++
		}})
	}
}

// Describe renders a packet.
func (p *Packet) Describe() string {
	return fmt.Sprintf("%s>%s #%d %dB", p.From, p.To, p.Seq, len(p.Data))
}
