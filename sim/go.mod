module verif/sim

go 1.26

require (
	github.com/aperturerobotics/bifrost v0.0.0
	github.com/aperturerobotics/starpc v0.49.3
	github.com/aperturerobotics/util v1.33.1
	github.com/sirupsen/logrus v1.9.5-0.20260309202648-9f0600962f75
)

require (
	filippo.io/edwards25519 v1.2.0 // indirect
	github.com/aperturerobotics/controllerbus v0.53.1 // indirect
	github.com/aperturerobotics/go-websocket v1.8.15-0.20260329113544-74dbfb8f11c6 // indirect
	github.com/aperturerobotics/json-iterator-lite v1.0.1-0.20260223122953-12a7c334f634 // indirect
	github.com/aperturerobotics/protobuf-go-lite v0.12.2 // indirect
	github.com/blang/semver/v4 v4.0.0 // indirect
	github.com/klauspost/compress v1.18.5 // indirect
	github.com/klauspost/cpuid/v2 v2.2.10 // indirect
	github.com/libp2p/go-buffer-pool v0.1.0 // indirect
	github.com/libp2p/go-yamux/v4 v4.0.2 // indirect
	github.com/mr-tron/base58 v1.3.0 // indirect
	github.com/pkg/errors v0.9.1 // indirect
	github.com/zeebo/blake3 v0.2.4 // indirect
	golang.org/x/crypto v0.50.0 // indirect
	golang.org/x/sys v0.43.0 // indirect
)

replace github.com/aperturerobotics/bifrost => /repo

replace github.com/aperturerobotics/util => /verif/.third_party/util

replace github.com/patrickmn/go-cache => /verif/.third_party/go-cache
