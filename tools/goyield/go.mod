module verif/tools/goyield

go 1.26
