// goyield rewrites `go` statements of selected packages of the repository under test so
// that every goroutine started there begins at a simulator scheduling point
// (simhook.Yield("go:<module-relative file>:<line>", "")). The rewritten files are used
// through `go build -overlay` only; the repository is not modified. Line numbers are
// preserved (all edits stay on the line of the original token), function values and
// arguments are still evaluated by the spawning goroutine.
//
// usage: goyield <repo-root> <out-dir> <overlay-json-in> <overlay-json-out> <dir>...
package main

import (
	"encoding/json"
	"fmt"
	"go/ast"
	"go/parser"
	"go/token"
	"os"
	"path/filepath"
	"sort"
	"strings"
)

const simhookPath = "github.com/aperturerobotics/bifrost/util/simhook"

type edit struct {
	off  int // byte offset
	del  int // bytes to delete
	text string
}

var builtins = map[string]bool{"close": true, "panic": true, "print": true, "println": true, "delete": true, "copy": true, "append": true, "recover": true, "clear": true}

func simpleExpr(e ast.Expr) bool {
	switch x := e.(type) {
	case *ast.Ident:
		return x.Name != "nil" && x.Name != "true" && x.Name != "false" && x.Name != "iota"
	case *ast.SelectorExpr:
		return simpleExpr(x.X)
	case *ast.ParenExpr:
		return simpleExpr(x.X)
	case *ast.StarExpr:
		return simpleExpr(x.X)
	case *ast.UnaryExpr:
		return x.Op == token.AND && simpleExpr(x.X)
	case *ast.IndexExpr:
		return simpleExpr(x.X) && simpleExpr(x.Index)
	case *ast.CallExpr:
		// a call evaluated by the spawner: keep it in the binding (typed result)
		for _, a := range x.Args {
			if !simpleExpr(a) {
				if _, ok := a.(*ast.BasicLit); !ok {
					return false
				}
			}
		}
		if id, ok := x.Fun.(*ast.Ident); ok && builtins[id.Name] {
			return false
		}
		return x.Ellipsis == token.NoPos
	}
	return false
}

func process(root, rel string, src []byte) ([]byte, int, error) {
	fset := token.NewFileSet()
	f, err := parser.ParseFile(fset, rel, src, parser.ParseComments)
	if err != nil {
		return nil, 0, err
	}
	for _, c := range f.Comments {
		for _, l := range c.List {
			if strings.HasPrefix(l.Text, "//go:build") && strings.Contains(l.Text, "ignore") {
				return nil, 0, nil
			}
		}
	}
	alias := ""
	for _, im := range f.Imports {
		if strings.Trim(im.Path.Value, `"`) == simhookPath {
			alias = "simhook"
			if im.Name != nil {
				alias = im.Name.Name
			}
		}
	}
	needImport := alias == ""
	if needImport {
		alias = "simhook_go"
	}
	var edits []edit
	n := 0
	off := func(p token.Pos) int { return fset.Position(p).Offset }
	ast.Inspect(f, func(nd ast.Node) bool {
		gs, ok := nd.(*ast.GoStmt)
		if !ok {
			return true
		}
		line := fset.Position(gs.Pos()).Line
		site := fmt.Sprintf("go:%s:%d", rel, line)
		yield := fmt.Sprintf("%s.Yield(%q, \"\"); ", alias, site)
		call := gs.Call
		if fl, ok := call.Fun.(*ast.FuncLit); ok {
			// go func(params){ body }(args): arguments are already evaluated by the spawner
			edits = append(edits, edit{off: off(fl.Body.Lbrace) + 1, text: " " + yield})
			n++
			return true
		}
		if call.Ellipsis != token.NoPos {
			return true
		}
		if id, ok := call.Fun.(*ast.Ident); ok && builtins[id.Name] {
			return true
		}
		if !simpleExpr(call.Fun) {
			return true
		}
		for _, a := range call.Args {
			if !simpleExpr(a) {
				return true
			}
		}
		// { _gf := F; _ga0 := a0; go func() { Yield; _gf(_ga0) }() }
		var b strings.Builder
		b.WriteString("{ _gf := ")
		b.Write(src[off(call.Fun.Pos()):off(call.Fun.End())])
		var names []string
		for i, a := range call.Args {
			nm := fmt.Sprintf("_ga%d", i)
			names = append(names, nm)
			b.WriteString("; " + nm + " := ")
			b.Write(src[off(a.Pos()):off(a.End())])
		}
		b.WriteString("; go func() { " + yield + "_gf(" + strings.Join(names, ", ") + ") }() }")
		text := b.String()
		if strings.Contains(text, "\n") {
			return true // multi-line expression: leave it alone (line numbers must not move)
		}
		edits = append(edits, edit{off: off(gs.Pos()), del: off(gs.End()) - off(gs.Pos()), text: text})
		n++
		return true
	})
	if n == 0 {
		return nil, 0, nil
	}
	if needImport {
		// add the import on the line of the package clause's end... keep lines: put it right
		// after the first import keyword's declaration start
		var first *ast.GenDecl
		for _, d := range f.Decls {
			if g, ok := d.(*ast.GenDecl); ok && g.Tok == token.IMPORT {
				first = g
				break
			}
		}
		imp := fmt.Sprintf("import %s %q; ", alias, simhookPath)
		if first != nil {
			edits = append(edits, edit{off: off(first.Pos()), text: imp})
		} else {
			// no imports: after the package clause, same line
			edits = append(edits, edit{off: off(f.Name.End()), text: "; " + strings.TrimSuffix(imp, "; ")})
		}
	}
	sort.Slice(edits, func(i, j int) bool { return edits[i].off > edits[j].off })
	out := append([]byte(nil), src...)
	for _, e := range edits {
		out = append(out[:e.off], append([]byte(e.text), out[e.off+e.del:]...)...)
	}
	// sanity: must still parse, same number of lines
	if _, err := parser.ParseFile(token.NewFileSet(), rel, out, 0); err != nil {
		return nil, 0, fmt.Errorf("rewritten %s does not parse: %v", rel, err)
	}
	if strings.Count(string(out), "\n") != strings.Count(string(src), "\n") {
		return nil, 0, fmt.Errorf("rewritten %s changed the line count", rel)
	}
	return out, n, nil
}

func main() {
	if len(os.Args) < 6 {
		fmt.Fprintln(os.Stderr, "usage: goyield <repo-root> <out-dir> <overlay-in> <overlay-out> <dir>...")
		os.Exit(2)
	}
	root, outDir, ovIn, ovOut := os.Args[1], os.Args[2], os.Args[3], os.Args[4]
	var ov struct {
		Replace map[string]string `json:"Replace"`
	}
	b, err := os.ReadFile(ovIn)
	if err != nil {
		fmt.Fprintln(os.Stderr, err)
		os.Exit(2)
	}
	if err := json.Unmarshal(b, &ov); err != nil {
		fmt.Fprintln(os.Stderr, err)
		os.Exit(2)
	}
	total, files := 0, 0
	for _, dir := range os.Args[5:] {
		ents, err := os.ReadDir(filepath.Join(root, dir))
		if err != nil {
			continue
		}
		for _, e := range ents {
			nm := e.Name()
			if e.IsDir() || !strings.HasSuffix(nm, ".go") || strings.HasSuffix(nm, "_test.go") || strings.Contains(nm, ".pb.") {
				continue
			}
			rel := filepath.ToSlash(filepath.Join(dir, nm))
			src, err := os.ReadFile(filepath.Join(root, rel))
			if err != nil {
				continue
			}
			out, n, err := process(root, rel, src)
			if err != nil {
				fmt.Fprintln(os.Stderr, "goyield:", err)
				os.Exit(2)
			}
			if n == 0 {
				continue
			}
			dst := filepath.Join(outDir, rel)
			if err := os.MkdirAll(filepath.Dir(dst), 0o755); err != nil {
				fmt.Fprintln(os.Stderr, err)
				os.Exit(2)
			}
			if err := os.WriteFile(dst, out, 0o644); err != nil {
				fmt.Fprintln(os.Stderr, err)
				os.Exit(2)
			}
			abs, _ := filepath.Abs(filepath.Join(root, rel))
			ov.Replace[abs] = dst
			total += n
			files++
		}
	}
	ob, _ := json.MarshalIndent(ov, "", " ")
	if err := os.WriteFile(ovOut, ob, 0o644); err != nil {
		fmt.Fprintln(os.Stderr, err)
		os.Exit(2)
	}
	fmt.Printf("goyield: %d go statements in %d files\n", total, files)
}
