#!/bin/bash
# Runs the repository's own test suite with the verif guard OFF (default toolchain, no tags)
# and compares the passing set with /root/.vp/BASELINE.json. Exit 0 iff all 75 stable tests pass.
set -uo pipefail
cd "${VERIF_REPO:-/repo}"
export GOPROXY=off GOFLAGS=-mod=mod
unset GOTOOLCHAIN GOSUMDB GODEBUG
OUT=$(mktemp /tmp/baseline.XXXXXX.json)
go test -mod=mod -json -vet=off -count=1 -timeout 25m ./... > "$OUT" 2>/tmp/baseline.err
python3 - "$OUT" <<'PY'
import json,sys
want=set(json.load(open('/root/.vp/BASELINE.json'))['stable_pass'])
passed=set(); failed=set()
for l in open(sys.argv[1]):
    try: e=json.loads(l)
    except Exception: continue
    if e.get('Test') and e.get('Action') in ('pass','fail'):
        k=e['Package']+'::'+e['Test']
        (passed if e['Action']=='pass' else failed).add(k)
missing=sorted(want-passed)
print("baseline: %d/%d stable tests passed; failed: %s; missing: %s"%(len(want&passed),len(want),sorted(failed)[:10],missing[:10]))
sys.exit(0 if not missing and not failed else 1)
PY
rc=$?
rm -f "$OUT"
exit $rc
