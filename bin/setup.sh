#!/bin/bash
# setup_cmd: builds the harness-side patched dependency copies and warms the build cache.
# Offline; uses only the module cache and files under /verif.
set -euo pipefail
cd /verif
. bin/env.sh
MODCACHE=$($VERIF_GO env GOMODCACHE)
TP=/verif/.third_party
UTIL_SRC=$MODCACHE/github.com/aperturerobotics/util@v1.33.1
GC_SRC=$MODCACHE/github.com/patrickmn/go-cache@v2.1.0+incompatible
for d in "$UTIL_SRC" "$GC_SRC"; do
  [ -d "$d" ] || { echo "setup: missing module source $d" >&2; exit 2; }
done
rm -rf "$TP"; mkdir -p "$TP"
cp -r "$UTIL_SRC" "$TP/util"; chmod -R u+w "$TP/util"
# refuse to proceed if the upstream file is not the one the patch was written against
got=$(sha256sum "$UTIL_SRC/broadcast/broadcast.go" | cut -c1-8)
if [ "$got" != "$(cat patches/broadcast.go.upstream-sha 2>/dev/null || echo none)" ]; then
  echo "setup: util/broadcast/broadcast.go differs from the version the patch was written for ($got)" >&2; exit 2
fi
cp patches/broadcast.go "$TP/util/broadcast/broadcast.go"
cp -r "$GC_SRC" "$TP/go-cache"; chmod -R u+w "$TP/go-cache"
grep -q 'if ci > 0 {' "$TP/go-cache/cache.go" || { echo "setup: go-cache anchor not found" >&2; exit 2; }
sed -i 's/if ci > 0 {/if ci > 0 \&\& false { \/\/ VERIF: janitor goroutine not started (never exits; expiry is checked lazily in Get)/' "$TP/go-cache/cache.go"
# VERIF: entry of Get/Set/Add is a simulator scheduling point (shared state: a goroutine
# between its Get and its Set may be overtaken)
for fn in Set Add Get; do
  grep -q "^func (c \*cache) $fn(" "$TP/go-cache/cache.go" || { echo "setup: go-cache $fn anchor not found" >&2; exit 2; }
done
sed -i 's/^func (c \*cache) Set(k string, x interface{}, d time.Duration) {$/&\n\tif SimYield != nil {\n\t\tSimYield("set")\n\t}/; s/^func (c \*cache) Add(k string, x interface{}, d time.Duration) error {$/&\n\tif SimYield != nil {\n\t\tSimYield("add")\n\t}/; s/^func (c \*cache) Get(k string) (interface{}, bool) {$/&\n\tif SimYield != nil {\n\t\tSimYield("get")\n\t}/' "$TP/go-cache/cache.go"
printf 'package cache\n\n// SimYield, if set, is called at the entry of Get, Set and Add (simulation builds only).\nvar SimYield func(op string)\n' > "$TP/go-cache/simyield.go"
[ -f "$TP/go-cache/go.mod" ] || printf 'module github.com/patrickmn/go-cache\n\ngo 1.12\n' > "$TP/go-cache/go.mod"
# harness module: go.sum from the repository (same dependency graph)
bin/gen_overlay.py >/dev/null
# the go-statement rewriter (always rebuilt here; bin/build.sh builds it only if missing)
(cd tools/goyield && $VERIF_GO build -o /verif/.build/goyield .)
bin/build.sh >/dev/null
echo "setup: ok"
