#!/bin/bash
# usage: bin/mutant.sh <patch-file|-R:commit> <prop> [check args...]
# Applies a patch (or reverts a commit with -R:<sha>) in a scratch worktree of /repo, runs the
# check against it with a private binary, prints the outcome, removes the worktree.
set -uo pipefail
P=$1; PROP=$2; shift 2
WT=$(mktemp -d /tmp/mut.XXXXXX)
git -C /repo worktree add -q --detach "$WT" HEAD || exit 2
cleanup() { git -C /repo worktree remove --force "$WT" 2>/dev/null; rm -rf "$WT" "/verif/.build/mut.$$.test"; }
trap cleanup EXIT
if [[ "$P" == -R:* ]]; then
  (cd "$WT" && git revert --no-commit "${P#-R:}" >/dev/null) || { echo "mutant: revert failed"; exit 2; }
else
  git -C "$WT" apply "$P" || { echo "mutant: patch does not apply"; exit 2; }
fi
export VERIF_REPO=$WT VERIF_BIN=/verif/.build/mut.$$.test DSIM_EVIDENCE_DIR=/tmp/mut-evidence.$$
mkdir -p $DSIM_EVIDENCE_DIR
/verif/bin/check "$PROP" "$@"
rc=$?
rm -rf $DSIM_EVIDENCE_DIR
echo "mutant: exit $rc"
exit $rc
