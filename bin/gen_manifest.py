#!/usr/bin/env python3
"""Writes /verif/MANIFEST.json from the table below (single source of truth for what is claimed)."""
import json, os
ROOT = "/verif"
props = [json.loads(l) for l in open(os.path.join(ROOT, "properties.jsonl"))]

TECH = "deterministic simulation with fault injection (seeded schedule/fault search over the real code in a testing/synctest bubble)"

SIG_NOTE = "Trusts: go1.26.8 toolchain with a six-file runtime overlay (seeded select/map/timer-tie order, no time-slice preemption, mutex waits durably blocked, mutex starvation clock frozen) and build-time rewritten go statements (goroutine starts are scheduling points), patched util/broadcast (simulated mutex), the simulated message streams standing in for srpc/yamux/QUIC streams. Interleavings only at simulator-owned points (deliveries, armed scheduling points, operations, faults, ticks). Sampling, not proof."

def sim(text, ref, oracle, note=SIG_NOTE):
    return dict(text=text, note=note, ref=ref, technique=TECH + "; oracle: " + oracle)

CLAIMED = {
 "C19": sim("Real signaling Client against a scripted hostile relay that injects forged, tampered, re-attributed, cross-context, unsigned and replayed messages and unsolicited control messages at arbitrary points of the client's retry/receive schedule; every message the application receives must carry content the harness signed with the peer's key for this recipient.",
            "5 (C19)", "authenticity by membership in the harness-made honest pool (never bifrost's own verifier)"),
 "C20": sim("Real relay Server against scripted clients that submit foreign-signed, tampered, wrong-context, unsigned, stale-epoch and future-epoch requests, a re-used signature with a new payload right after the honest message it came from, a message signed by the stream's partner, unsolicited acks/clears, requests before Init and bad Inits, interleaved with honest traffic, session replacement and stream resets; every RecvMsg the relay emits is checked against what the authenticated owner of the partner stream really signed and submitted, and against the announced epochs.",
            "5 (C20)", "per-emission invariant against harness ground truth + quiescence rule for future epochs"),
 "C21": sim("Real Server and 2-3 real Clients; sends, cancellations, peer references released and re-added (message numbering restarts), stream resets, relay crash-restart (session epochs restart), and (in a separate lossy configuration) dropped/duplicated wire messages; at the instant a Send returns nil the destination application must already have received exactly that signed message.",
            "5 (C21)", "trace validation at completion events (success implies earlier byte-equal delivery)"),
 "C22": sim("Real relay Server driven through raw Session streams so that every announcement is observed in wire order; attach, replace (usurp), close, reset, send/ack/clear under parked relay loops; per-delivery epoch agreement, announced-epoch agreement with the relay's real epoch at every quiescent point, and a final probe under the announced epoch.",
            "5 (C22)", "invariants at delivery and at quiescence + verif accessor cross-check + probe"),
 "C23": sim("Bounded liveness by seeded simulation: real relay Server + two real Clients on simulator-owned streams; attach order, operation order, message deliveries, armed scheduling points (relay mutex sites, client broadcast-lock sites), stream resets, relay crash-restart with empty state and clock jumps are all drawn from one tape; after the last fault a fair schedule must complete every Send within 30 simulated minutes.",
            "5 (C23), 3", "bounded liveness after the last fault"),
 "C24": sim("Real relay Server under churn of raw Listen and Session calls of three parties (open, replace, close, reset, parked handlers); at every quiescent point the announced-minus-withdrawn set of each running Listen call must equal the set of parties with a registered Session toward it.",
            "5 (C24)", "set equality with the reference model at quiescence"),
 "C25": sim("Same churn world; at quiescence at most one running Listen per party and one Session per ordered pair, relay-ended calls carry the replaced error and only calls that a later-registered call can have replaced end that way (consistency of handler start/return order), and after every call has been closed and drained the relay holds no per-peer or per-session state (verif accessor).",
            "5 (C25)", "uniqueness invariant at quiescence + replaced-error check + empty-state check at the end"),

 "C08": sim("Real rwc.PacketConn pairs and stream_packet.Session pairs over a simulator-owned byte stream with driver-chosen chunking (split inside the length prefix, coalesced frames), per-run max sizes, queue depths and reader buffer sizes, raw zero/over-limit/huge length prefixes followed by further frames, EOF or reset mid-frame, slow readers; the k-th read must return exactly the k-th written packet, nothing after an invalid prefix.",
            "5 (C08)", "refinement against the exact written packet sequence, per read", "Trusts go1.26.8 + runtime overlay and the simulated byte stream as a faithful io.ReadWriteCloser; in the main scenario writers run at driver steps; the concurrent-writers scenario runs 2-3 SendMsg tasks per side over a flow-controlled Write (scheduling point in the middle of every Write). Sampling, not proof."),
 "C09": sim("Real rwc.Conn pairs over the simulated byte stream: chunked delivery, partial underlying writes, read buffers from 1 byte up, per-run queue depth, EOF/reset at arbitrary offsets, final data returned together with the terminal error; every Conn.Read is matched against the pump chunk it must correspond to (byte cursor model).",
            "5 (C09)", "byte-cursor reference model checked on every read + byte conservation at quiescence", "Same trusted base as C08."),
 "C31": sim("Part (a) of the property: the real solicited-stream value under 2-4 concurrent callers of Accept/Close/IsAccepted with the driver deciding every interleaving at the scheduling points before each mutex acquisition; linearizability against the sequential model {accepted, closed} with porcupine, plus the single-owner and never-close-an-accepted-stream invariants; the underlying stream's Close is itself a scheduling point (a Close that blocks while the value's mutex is held or not). Part (b), in one run of three: the C30 world with several local solicitations (different constraints, or colliding classes) matching one incoming stream; each stream end may be accepted by at most one of them.",
            "5 (C31)", "porcupine linearizability of the recorded history + invariants", "Trusts porcupine v1.3.0 and the hook placement."),
 "C33": sim("Real hold-open controller and handler against a fake directive instance with exact strong-reference accounting; value-added/removed callbacks for 1-3 links overlap across links (never reordered within one link) and the asynchronous reference acquisition lands at a driver-chosen later point, the handler's own goroutine starts (acquire, release) are scheduling points; at quiescence a strong reference is held iff links exist.",
            "5 (C33)", "equivalence (refs>0 iff links>0) at quiescence", "Trusts the fake directive.Instance as a faithful stand-in for controllerbus reference counting; callbacks of one value are serialized as a real bus does."),
 "C39": sim("Real key-file loader against a scratch directory that the simulator puts into every state a crash during the non-atomic, non-fsynced write (any prefix, empty, missing) or an operator (garbage, other PEM types, directory, path below a file, symlink loop, dangling symlink, over-long name, missing parent directory, key material with stray trailing bytes under a correct PEM header, dangling symlink into a missing directory; read-only directory and mode-000 file when not running as root) can leave; sequences of loads and faults from the tape; every load must return a usable key or an error, identities must be stable across reloads, and the CLI path that relies on the key file (envelope unseal) must fail on a non-key file and name it.",
            "5 (C39)", "key-or-error invariant + identity stability against the file-state model", "Crash points are modelled on the resulting file content; no fault is injected inside os.ReadFile/os.WriteFile (no file-system seam). No concurrency dimension."),

 "C06": sim("One real bus with the real transport controller over a simlink transport; the harness plays the transport and issues establish / duplicate / same-UUID replacement / loss / duplicate loss / loss of unknown links as overlapping transport callbacks, the loss report owed after each system Close arrives at a driver-chosen later point, readers hold the controller lock while parked so that the TryLock fast path fails; at every quiescent point GetPeerLinks, watcher directive values and both internal tables must equal the per-object reference model (established and not yet lost), lost links must be closed, and a live link may only be closed for a cause. One run in twelve is the QUIC scenario: a listener and three dialers contending for one source address (address takeover fault, N restarted under the same identity, another identity on the same address), real quic.Transport + pconn + quic-go + TLS under the real controller over the simulated datagram network, dials in both directions, application Close, clock jumps beyond the idle timeout, packet faults; at every step with nothing parked the controller's tables, the transport's address table and the set of reported-and-not-closed links must agree.",
            "5 (C06)", "refinement against a per-object liveness model at quiescence + close-cause invariant", "Trusts the simlink stub as a well-behaved link (one loss report per Close) and the patched util/broadcast; controllerbus internals run real but their interleavings are repeated, not explored. In the QUIC scenario quic-go/TLS goroutine interleavings are repeated per seed, not explored."),

 "C04": sim("One real bus with two real transport controllers (local peers S1, S2) over simlink transports (in some runs the first one constructs its transport late, so requests arrive in the start-up window); links to three remote identities, self-links and S1<->S2 links are established and lost, EstablishLinkWithPeer directives with every combination of source (none, S1, S2, a stranger) and destination are added and released, incoming streams with valid headers are injected; every value ever emitted and every mounted stream delivered is checked against the link it belongs to, and at quiescence each directive's value set must equal the live links between exactly the requested peers.",
            "5 (C04)", "per-value invariant + set equality with the reference model at quiescence", "Trusts the simlink stub; expiry of unreferenced links after the hold-open period is modelled as a loss."),
 "C07": sim("Real opener (mountedLink.OpenMountedStream) and real receiver (HandleIncomingStream, header reader, protocol validation, handler lookup through the bus) joined by a simulator-owned byte stream with driver-chosen chunking; protocol IDs from 1 byte to the exact header limit (boundary-biased), payload written right behind the header; ten kinds of malformed or stalled headers written by the harness; valid headers must be dispatched exactly once with the written protocol ID and the link's peers and hand the handler exactly the payload, malformed ones must end in a closed stream without dispatch. A valid header that the driver itself delays beyond the 5 s establish deadline is treated as a stalled header.",
            "5 (C07)", "exact equality of protocol ID, peers and payload per stream + closed-without-dispatch for malformed input", "Trusts the simlink stub and its fake-clock read deadlines."),

 "C27": sim("A real FloodSub router with subscriptions, an honest scripted downstream peer that observes everything the router forwards and a scripted malicious peer that injects tampered, re-targeted, foreign-signed (with and without an embedded public key), same-signature-different-payload, cross-context, bare-context, prefix-channel-context, one packet with a tampered message followed by a genuine one, empty-channel, unsubscribed-channel and bit-flipped packets, plus a local subscribe-and-release inside one evaluation window, between honest ones; every handler callback and every forwarded message is checked against the set of (sender, channel, payload) triples the harness itself signed.",
            "5 (C27)", "per-callback and per-forward membership in the harness-made honest pool"),
 "C28": sim("3-5 real FloodSub routers in a connected mesh drawn from the tape (line, star, ring, random); publishes from every node; link flaps under the same and under new link tuples, a pair of routers joined by two links at once, router crash and restart, chunked and stalled streams, clock jumps beyond the de-duplication window; no duplicate hand-over within the window, no message sent back to its publisher or to its only source (wire tap ordered by a global event sequence), and after the last fault one fresh message per node and channel is handed exactly once to every subscription reachable through subscribed routers. Router panics are violations.",
            "5 (C28)", "per-delivery counters + wire-tap ordering + exactly-once at reachable subscribers after stabilisation"),

 "C29": sim("Two variants per run. links: two full nodes (bus, peer and transport controllers over simlinks, the real pubsub controller driving a real FloodSub) with link failure and re-establishment under the same or a new UUID while link trackers may still be starting (goroutine starts are scheduling points); for every link pair exactly one side opens the pubsub stream (counted at the stub). subs: a real FloodSub with subscriptions and handlers added, removed and released while traffic for those channels is in flight and the delivery goroutines are parked, optionally with a slow peer (small flow-control window, stops reading, publish bursts that fill the router's per-peer queue); no handler runs after its remove function or Release returned, and the announcements seen by a scripted peer end with Subscribe=false exactly when no local subscription remains.",
            "5 (C29)", "opener-count invariant per link + no-callback-after-release invariant + announcement equality at quiescence"),
 "C30": sim("Two full nodes with the real solicitation controller over a simlink pair; SolicitProtocol directives from alphabets whose protocol||context concatenations collide, with peer and transport constraints, added over time on both sides, withdrawn, and made again for what the other side withdrew; every accepted stream is identified by its simulator-owned stream pair, both ends must belong to solicitations with identical protocol and context whose constraints admit the link, and every identical admissible pair must end up matched (unless the driver stalled a stream header past the establish deadline).",
            "5 (C30)", "pairwise identity check on both ends of every solicited stream + completeness at quiescence"),

 "C36": sim("Availability and idle clauses: the real AccessRpcServiceServer.LookupRpcService on a real bus writing to a harness stream whose Send is a scheduling point (back-pressure), while matching, non-matching, slow (resolver stays busy) and foreign-value provider controllers are added and removed in tape order and the stream is cancelled at an arbitrary point; exists/removed must strictly alternate starting with exists, the last one must equal (matching providers > 0) at every quiescent point, idle messages never repeat and the last one equals the directive's idle state (ground truth: the harness's own idle callback on the same directive instance). The component-ID round trip is a pure function on the unchanged tree; it is probed as a history of colliding valid requests encoded back to back.",
            "5 (C36)", "alternation invariant on the response stream + equality with the provider count and with the directive idle state at quiescence", "Trusts go1.26.8 + runtime overlay; directive callbacks run under the bus lock and are not scheduling points (their interleaving with the server loop is decided by operation order and fake time only)."),

 "C03": sim("Three honest full nodes with the real pconn/QUIC transport, real TLS and quic-go over the simulator's datagram network, plus a harness-built forger endpoint presenting crafted certificate chains (valid control, copied extension, the victim's live extension replayed, no extension, corrupt ASN.1, wrong signer, two certificates, not self-signed, a valid own chain carrying the serial number of the victim's certificate); honest dials to one address with differing expected peers that overlap; honest dials under address rebinding, direct HandleConn dial/listen pairs with the expected peer empty, right or wrong; packet loss, duplication, reordering, corruption and clock jumps; every link any transport reports must name an identity that an endpoint which really sent the packets from the link's remote address can prove, a wrong expected peer must give an error and no link.",
            "5 (C03)", "invariant on every reported link against the packet network's ground truth", "Trusts go1.26.8 + six-file runtime overlay (seeded select/map/timer order, no time-slice preemption, mutex waits durably blocked, mutex starvation clock frozen) and build-time rewritten go statements (goroutine starts are scheduling points), testing/cryptotest for repeatable crypto randomness, and the simulated datagram network as a faithful net.PacketConn; quic-go and crypto/tls internals run real, their goroutine interleavings are repeated per seed, not explored. websocket and WebRTC front-ends are not run."),
 "C05": sim("Dialer node, wanted peer X and an impostor I on the QUIC world; the address of X is rebound to I and back before, during and after DialPeerAddr(X, addr) and EstablishLinkWithPeer(X) requests, with bounded packet faults, dial cancellation, overlapping dials of the same address for another peer, dial strings that are aliases of the resolved address, the same requests as DialTptAddr directives (two live at once for different target peers), the wanted peer also linked through a second endpoint of its own, and clock jumps; every successful dial for X must return a link authenticated as X, every directive value must be a link to X, and after the last fault (X owns its address, impostor gone) a fresh request for X must be satisfied within five simulated minutes under a fair schedule.",
            "5 (C05)", "safety invariant on dial results + bounded liveness after heal", "Trusts go1.26.8 + six-file runtime overlay (seeded select/map/timer order, no time-slice preemption, mutex waits durably blocked, mutex starvation clock frozen) and build-time rewritten go statements (goroutine starts are scheduling points), testing/cryptotest for repeatable crypto randomness, and the simulated datagram network as a faithful net.PacketConn; quic-go and crypto/tls internals run real, their goroutine interleavings are repeated per seed, not explored. websocket and WebRTC front-ends are not run."),
}

NA_PURE = {
 "C01": "pure function of (message bytes, context): no schedule, clock, fault or multi-party dimension; its system-level consequences are simulated under C19/C20/C27",
 "C02": "pure function of its inputs (detached signature API)",
 "C10": "pure encoding functions", "C11": "pure encoders/parsers", "C12": "pure function of key, context, ciphertext",
 "C13": "pure derivation function", "C14": "pure classification of byte strings", "C15": "pure hash verification/encoding",
 "C16": "pure function of (configuration, key set, bytes)", "C17": "pure function of configuration", "C18": "pure function of bytes and context",
 "C26": "signal codec and role choice are pure functions; the link clause needs pion ICE/DTLS over real sockets, which cannot run inside the simulator",
 "C32": "pure functions (ComputeSessionID, FindMatchingHashes)", "C34": "pure filter on (configuration, directive)", "C35": "pure matching / prefix stripping",
 "C37": "pure predicate on two directive values", "C38": "pure parsers", "C40": "coverage-guided input fuzzing of pure decoders is a different technique family",
}
PENDING = "check not built yet in this framework (planned, see DESIGN.md section 5); not claimed until it runs"

checks = []
na = []
for p in props:
    pid = p["id"]
    if pid in CLAIMED:
        c = CLAIMED[pid]
        checks.append({
            "property_id": pid,
            "quick_cmd": "bin/check %s --tier quick" % pid,
            "thorough_cmd": "bin/check %s --tier thorough" % pid,
            "evidence_file": "/verif/evidence/%s.json" % pid,
            "replay_cmd_template": "bin/check %s --replay {path}" % pid,
            "engine": "dsim",
            "level_claimed": {"category": "exploration", "text": c["text"], "design_ref": c["ref"]},
            "level_note": c["note"],
            "technique": c["technique"],
        })
    else:
        na.append({"property_id": pid, "reason": NA_PURE.get(pid, PENDING)})

hooks = []
try:
    import subprocess
    out = subprocess.check_output(["git", "-C", "/repo", "log", "--format=%h %s", "bf53d31..HEAD"], text=True)
    hooks = [l.split()[0] for l in out.splitlines() if l.split(" ", 1)[1].startswith("verif:")]
except Exception:
    pass

m = {
 "version": 1,
 "setup_cmd": "bin/setup.sh",
 "hooks": {
   "guard": "verif",
   "enable": "go1.26.8 test -c -tags verif -overlay <runtime overlay + rewritten go statements of the current tree> (bin/build.sh); hooks committed in /repo: util/simhook.Yield call lines + verif_state.go accessors; hooks added at build time only (no change to /repo): a simhook.Yield at every goroutine start of the packages in bin/goyield.dirs (tools/goyield)",
   "baseline_off_cmd": "bin/baseline.sh",
   "source_commits": hooks,
   "add_only": True,
 },
 "engines": [{"name": "dsim", "path": "/verif/sim", "serves_properties": sorted(CLAIMED), "kind_free_text": "deterministic simulator: synctest bubble + seeded tape + simulated networks + fault injection + shrinking replay"}],
 "checks": checks,
 "not_applicable": na,
 "notes": "All checks: exit 0 held, exit 1 with VIOLATION line, exit 2 infrastructure trouble. Known findings: /verif/KNOWN_FINDINGS.json.",
}
json.dump(m, open(os.path.join(ROOT, "MANIFEST.json"), "w"), indent=1)
print("manifest: %d checks, %d not applicable" % (len(checks), len(na)))
