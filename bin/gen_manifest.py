#!/usr/bin/env python3
"""Writes /verif/MANIFEST.json from the table below (single source of truth for what is claimed)."""
import json, os
ROOT = "/verif"
props = [json.loads(l) for l in open(os.path.join(ROOT, "properties.jsonl"))]

TECH = "deterministic simulation with fault injection (seeded schedule/fault search over the real code in a testing/synctest bubble)"

CLAIMED = {
 "C23": dict(
   text="Bounded liveness by seeded simulation: real relay Server + two real Clients on simulator-owned streams; attach order, operation order, message deliveries, armed scheduling points (relay mutex sites, client broadcast-lock sites), stream resets and clock jumps are all drawn from one tape; after the last fault a fair schedule must complete every Send within 30 simulated minutes. Sampling, not proof.",
   note="Trusts: go1.26.8 toolchain with a three-file runtime overlay (seeded select/map/timer-tie order), patched util/broadcast (simulated mutex), the simulated stream transport standing in for srpc. Interleavings only at simulator-owned points.",
   ref="5 (C23), 3", technique=TECH + "; oracle: bounded liveness after the last fault"),
}

NA_PURE = {
 "C01": "pure function of (message bytes, context): no schedule, clock, fault or multi-party dimension; its system-level consequences are simulated under C19/C20/C27",
 "C02": "pure function of its inputs (detached signature API)",
 "C10": "pure encoding functions", "C11": "pure encoders/parsers", "C12": "pure function of key, context, ciphertext",
 "C13": "pure derivation function", "C14": "pure classification of byte strings", "C15": "pure hash verification/encoding",
 "C16": "pure function of (configuration, key set, bytes)", "C17": "pure function of configuration", "C18": "pure function of bytes and context",
 "C26": "signal codec and role choice are pure functions; the link clause needs pion ICE/DTLS over real sockets, which cannot run inside the simulator",
 "C32": "pure functions (ComputeSessionID, FindMatchingHashes)", "C34": "pure filter on (configuration, directive)", "C35": "pure matching / prefix stripping",
 "C37": "pure predicate on two directive values", "C38": "pure parsers", "C40": "coverage-guided input fuzzing of pure decoders is a different technique family",
}
PENDING = "check not built yet in this framework (planned, see DESIGN.md section 5); not claimed until it runs"

checks = []
na = []
for p in props:
    pid = p["id"]
    if pid in CLAIMED:
        c = CLAIMED[pid]
        checks.append({
            "property_id": pid,
            "quick_cmd": "bin/check %s --tier quick" % pid,
            "thorough_cmd": "bin/check %s --tier thorough" % pid,
            "evidence_file": "/verif/evidence/%s.json" % pid,
            "replay_cmd_template": "bin/check %s --replay {path}" % pid,
            "engine": "dsim",
            "level_claimed": {"category": "exploration", "text": c["text"], "design_ref": c["ref"]},
            "level_note": c["note"],
            "technique": c["technique"],
        })
    else:
        na.append({"property_id": pid, "reason": NA_PURE.get(pid, PENDING)})

hooks = []
try:
    import subprocess
    out = subprocess.check_output(["git", "-C", "/repo", "log", "--format=%h %s", "bf53d31..HEAD"], text=True)
    hooks = [l.split()[0] for l in out.splitlines() if l.split(" ", 1)[1].startswith("verif:")]
except Exception:
    pass

m = {
 "version": 1,
 "setup_cmd": "bin/setup.sh",
 "hooks": {
   "guard": "verif",
   "enable": "go1.26.8 test -c -tags verif -overlay .build/overlay/overlay.json (bin/build.sh); hooks: util/simhook.Yield call lines + verif_state.go accessors",
   "baseline_off_cmd": "bin/baseline.sh",
   "source_commits": hooks,
   "add_only": True,
 },
 "engines": [{"name": "dsim", "path": "/verif/sim", "serves_properties": sorted(CLAIMED), "kind_free_text": "deterministic simulator: synctest bubble + seeded tape + simulated networks + fault injection + shrinking replay"}],
 "checks": checks,
 "not_applicable": na,
 "notes": "All checks: exit 0 held, exit 1 with VIOLATION line, exit 2 infrastructure trouble. Known findings: /verif/KNOWN_FINDINGS.json.",
}
json.dump(m, open(os.path.join(ROOT, "MANIFEST.json"), "w"), indent=1)
print("manifest: %d checks, %d not applicable" % (len(checks), len(na)))
