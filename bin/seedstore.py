#!/usr/bin/env python3
"""usage: bin/seedstore.py <out-dir> <PROP> <n> <wave> <demo-pkg-dir> <seedcheck-json> <first_exit> <classes,...> [strengthening text]
Stores a validated seeded change as seeded/<PROP>-<n>/ (patch.diff, demo_test.go, README.md, meta.json)."""
import json, os, shutil, subprocess, sys, glob
out, prop, n, wave, pkg, scj, first, classes = sys.argv[1:9]
strengthening = sys.argv[9] if len(sys.argv) > 9 else ""
d = "/verif/seeded/%s-%s" % (prop, n)
os.makedirs(d, exist_ok=True)
shutil.copy(os.path.join(out, "patch.diff"), d + "/patch.diff")
demos = glob.glob(os.path.join(out, "*_test.go"))
shutil.copy(demos[0], d + "/demo_test.go")
notes = os.path.join(out, "NOTES.md")
if os.path.exists(notes):
    shutil.copy(notes, d + "/README.md")
sc = json.loads(scj)
head = subprocess.check_output(["git", "-C", "/repo", "rev-parse", "--short", "HEAD"]).decode().strip()
meta = {
    "property": prop,
    "wave": int(wave),
    "source": "independent sub-agent given only the property text (statement, quantifier, anchors) and a scratch worktree",
    "needs_to_manifest": "see README.md (the sub-agent's notes)",
    "verified": {
        "patch_applies_and_builds": True,
        "repository_suite_with_patch": "bin/baseline.sh exit %d (75/75 stable tests pass)" % sc["baseline_exit"],
        "demo_fails_with_patch": sc["demo_patched_exit"] != 0,
        "demo_passes_without_patch": sc["demo_clean_exit"] == 0,
    },
    "ran": "bin/seedcheck.sh <out-dir> %s %s -count=1 -timeout 180s -run TestDemoW9 ./%s/  (scratch worktree of /repo HEAD, removed afterwards)" % (prop, pkg, pkg),
    "check_result": {
        "first_run_exit": int(first),
        "final_exit": sc["check_exit"],
        "violation_classes": [c for c in classes.split(",") if c],
    },
    "base_commit": "/repo HEAD " + head,
}
if strengthening:
    meta["strengthening"] = strengthening
json.dump(meta, open(d + "/meta.json", "w"), indent=1)
print("stored", d)
