#!/bin/bash
# Runs one tier of every claimed check and prints "<id> exit=<code> <summary line>"; exit 1 if any check
# did not exit 0. usage: bin/sweep.sh [quick|thorough] [seed]
cd /verif
tier=${1:-quick}; seed=${2:-1}; bad=0
for p in $(python3 -c "import json;print(' '.join(c['property_id'] for c in json.load(open('/verif/MANIFEST.json'))['checks']))"); do
  out=$(bin/check $p --tier $tier --seed $seed 2>&1); rc=$?
  echo "$p exit=$rc $(echo "$out" | grep -E "$tier:" | tail -1)"
  if [ $rc -ne 0 ]; then bad=1; echo "$out" | grep -E "VIOLATION|UNREPRODUCED|INFRA" | head -5; fi
done
exit $bad
