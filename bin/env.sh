# sourced by every script: offline Go environment for the simulation build
export GOFLAGS=-mod=mod GOPROXY=file:///root/go/pkg/mod/cache/download GOSUMDB=off GOTOOLCHAIN=local GODEBUG=randautoseed=0
export GONOSUMCHECK=1 GONOSUMDB='*' GOFLAGS="-mod=mod"
export VERIF_ROOT=/verif
export VERIF_GO=${VERIF_GO:-go1.26.8}
export VERIF_REPO=${VERIF_REPO:-/repo}
