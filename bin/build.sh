#!/bin/bash
# Rebuilds the single simulation test binary from the repository's current working tree
# (VERIF_REPO, default /repo) with hooks enabled (-tags verif) and the runtime overlay.
set -euo pipefail
cd /verif
. bin/env.sh
mkdir -p .build
[ -d .third_party/util ] || { echo "build: run bin/setup.sh first" >&2; exit 2; }
[ -f .build/overlay/overlay.json ] || bin/gen_overlay.py >/dev/null
OUT=${1:-${VERIF_BIN:-/verif/.build/sim.test}}
TAG=$(echo "$VERIF_REPO" | md5sum | cut -c1-8)
MODFILE=/verif/.build/go.$TAG.mod
sed "s#=> /repo\$#=> $VERIF_REPO#" sim/go.mod > "$MODFILE"
cp -f "$VERIF_REPO/go.sum" "/verif/.build/go.$TAG.sum"
# goroutine starts of the packages under simulation become scheduling points: the go
# statements of the CURRENT tree are rewritten into an overlay (the tree is not modified)
[ -x /verif/.build/goyield ] || (cd /verif/tools/goyield && $VERIF_GO build -o /verif/.build/goyield .)
GOY=/verif/.build/goy.$TAG
find "$GOY" -type f -delete 2>/dev/null || true
mkdir -p "$GOY"
/verif/.build/goyield "$VERIF_REPO" "$GOY" /verif/.build/overlay/overlay.json "$GOY/overlay.json" $(cat /verif/bin/goyield.dirs) >/dev/null
cd sim
$VERIF_GO test -c -modfile="$MODFILE" -tags verif -vet=off -overlay "$GOY/overlay.json" -o "$OUT" .
echo "$OUT"
