#!/bin/bash
# Rebuilds the single simulation test binary from /repo's current working tree.
set -euo pipefail
cd /verif
. bin/env.sh
mkdir -p .build
[ -d .third_party/util ] || { echo "build: run bin/setup.sh first" >&2; exit 2; }
cp -f "$VERIF_REPO/go.sum" sim/go.sum
[ -f .build/overlay/overlay.json ] || bin/gen_overlay.py >/dev/null
cd sim
OUT=${1:-/verif/.build/sim.test}
$VERIF_GO test -c -tags verif -vet=off -overlay /verif/.build/overlay/overlay.json -o "$OUT" .
echo "$OUT"
