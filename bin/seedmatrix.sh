#!/bin/bash
# Runs the quick check of every stored seeded change (seeded/<PROP>-<n>/patch.diff) against a
# scratch worktree of /repo HEAD with the patch applied (bin/mutant.sh) and prints one line
# per seed: DETECTED / MISSED / NOAPPLY. Does not run the repository's own suite
# (bin/seedcheck.sh does). usage: bin/seedmatrix.sh [seed-dir-glob]
cd /verif
for d in seeded/${1:-*}/; do
  id=$(basename $d); prop=${id%%-*}
  out=$(bin/mutant.sh /verif/$d/patch.diff $prop 2>&1)
  rc=$(echo "$out" | sed -n 's/^mutant: exit //p')
  if echo "$out" | grep -q "patch does not apply"; then echo "$id NOAPPLY"
  elif [ "$rc" = 1 ]; then echo "$id DETECTED $(echo "$out" | grep -m1 '^violation:' | cut -d' ' -f2 | tr -d ':')"
  elif [ "$rc" = 0 ]; then echo "$id MISSED"
  else echo "$id INFRA($rc)"; fi
done
