#!/bin/bash
# usage: bin/seedcheck.sh <src-dir with patch.diff + demo> <PROP> <demo-dest-dir-in-repo> <go test args for demo...>
# Verifies a seeded change in a scratch worktree: (1) patch applies and builds, (2) the repository's own
# suite still passes with it (bin/baseline.sh), (3) the demo fails with the patch and passes without,
# (4) runs the check for PROP against the patched tree. Prints a JSON summary line. Removes the worktree.
set -uo pipefail
SRC=$1; PROP=$2; DEST=$3; shift 3
WT=$(mktemp -d /tmp/seedchk.XXXXXX)
git -C /repo worktree add -q --detach "$WT" HEAD || exit 2
cleanup() { git -C /repo worktree remove --force "$WT" 2>/dev/null; rm -rf "$WT" "/verif/.build/seedchk.$$.test"; }
trap cleanup EXIT
export GOFLAGS=-mod=mod GOPROXY=off
copy_demo() { if [ -d "$SRC/demo" ]; then cp "$SRC"/demo/*.go "$WT/$DEST/"; else cp "$SRC"/demo*_test.go "$WT/$DEST/" 2>/dev/null || cp "$SRC"/*_test.go "$WT/$DEST/"; fi; }
rm_demo() { (cd "$WT" && git clean -fdq); }
# clean tree: demo must pass
copy_demo
(cd "$WT" && go test -count=1 "$@" > /tmp/seedchk.clean.$$ 2>&1); CLEAN=$?
rm_demo
git -C "$WT" apply "$SRC/patch.diff" || { echo '{"error":"patch does not apply"}'; exit 2; }
(cd "$WT" && go build ./... ) || { echo '{"error":"does not build"}'; exit 2; }
copy_demo
(cd "$WT" && go test -count=1 "$@" > /tmp/seedchk.patched.$$ 2>&1); PATCHED=$?
rm_demo
git -C "$WT" apply "$SRC/patch.diff" 2>/dev/null || true   # (git clean does not touch tracked edits; patch still applied)
if [ -n "${SKIP_BASELINE:-}" ]; then printf "baseline: skipped (run separately)\n\n" > /tmp/seedchk.base.$$; BASE=-1; else VERIF_REPO=$WT /verif/bin/baseline.sh > /tmp/seedchk.base.$$ 2>&1; BASE=$?; fi
export VERIF_REPO=$WT VERIF_BIN=/verif/.build/seedchk.$$.test DSIM_EVIDENCE_DIR=/tmp/seedchk-ev.$$
mkdir -p $DSIM_EVIDENCE_DIR
/verif/bin/check "$PROP" ${SEED_TIER:+--tier $SEED_TIER} > /tmp/seedchk.check.$$ 2>&1; CHECK=$?
echo "{\"demo_clean_exit\":$CLEAN,\"demo_patched_exit\":$PATCHED,\"baseline_exit\":$BASE,\"check_exit\":$CHECK}"
tail -2 /tmp/seedchk.base.$$ | head -1
grep -E "^violation|^VIOLATION|quick:|thorough:|INFRA" /tmp/seedchk.check.$$ | head -4
rm -rf $DSIM_EVIDENCE_DIR /tmp/seedchk.*.$$
