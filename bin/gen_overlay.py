#!/usr/bin/env python3
"""Generates the simulation-build-only overlay of two Go runtime files (GOROOT of go1.26.8):
runtime/rand.go, runtime/select.go, one line of runtime/time.go and one line of runtime/proc.go, so that program-visible runtime randomness
(select among ready cases, order of synctest timers firing at the same fake instant, map seeds / iteration offsets, math/rand/v2 globals, process-wide
hash keys) comes from a generator the harness reseeds at the start of every run.
Refuses to proceed (exit 2) if an anchor is not found exactly once."""
import json, os, subprocess, sys

go = os.environ.get("VERIF_GO", "go1.26.8")
goroot = subprocess.check_output([go, "env", "GOROOT"], text=True, env=dict(os.environ, GOTOOLCHAIN="local")).strip()
outdir = "/verif/.build/overlay"
os.makedirs(outdir, exist_ok=True)

def sub(s, old, new, name):
    if s.count(old) != 1:
        print("gen_overlay: anchor %r found %d times in %s" % (old[:50], s.count(old), name), file=sys.stderr)
        sys.exit(2)
    return s.replace(old, new)

# ---- rand.go
p = os.path.join(goroot, "src/runtime/rand.go")
s = open(p).read()
# 1. constant boot seed: process-wide hash keys equal in every process
s = sub(s, "\tglobalRand.state.Init(*seed)\n", "\t*seed = [32]byte{'v', 'e', 'r', 'i', 'f', 1} // VERIF: constant boot seed\n\tglobalRand.state.Init(*seed)\n", "rand.go")
# 2. rand() -> sim stream when seeded; original body becomes randM()
s = sub(s, "//go:nosplit\n//go:linkname rand\nfunc rand() uint64 {\n",
        "//go:nosplit\n//go:linkname rand\nfunc rand() uint64 {\n\tif simRandOn {\n\t\treturn simRand64()\n\t}\n\treturn randM()\n}\n\n// randM is the original per-m generator.\n//\n//go:nosplit\nfunc randM() uint64 {\n", "rand.go")
s = sub(s, "\tmp.cheaprand = rand()\n", "\tmp.cheaprand = randM()\n", "rand.go")
s += '''

// VERIF: simulation-build-only seeded stream for program-visible randomness.
var simRandOn bool
var simRandState uint64

//go:nosplit
func simRand64() uint64 {
	simRandState += 0xa0761d6478bd642f
	hi, lo := math.Mul64(simRandState, simRandState^0xe7037ed1a0b428db)
	return hi ^ lo
}

// Separate streams for select shuffles and for timer ties: code that runs only once per
// process (lazy initialisation) creates maps, i.e. draws from the rand() stream; it must not
// shift the choices that decide the schedule of the run.
var simSelState uint64
var simTimerState uint64

//go:nosplit
func simStep(st *uint64) uint64 {
	*st += 0xa0761d6478bd642f
	hi, lo := math.Mul64(*st, *st^0xe7037ed1a0b428db)
	return hi ^ lo
}

//go:nosplit
func simCheaprandn(n uint32) uint32 {
	if simRandOn {
		return uint32((uint64(uint32(simStep(&simSelState))) * uint64(n)) >> 32)
	}
	return cheaprandn(n)
}

//go:nosplit
func simTimerRand() uint32 {
	if simRandOn {
		return uint32(simStep(&simTimerState)) >> 1
	}
	return cheaprand()
}

// simRandSeed (re)seeds the streams; seed 0 switches them off.
//
//go:linkname simRandSeed
func simRandSeed(seed uint64) {
	simRandState = seed
	simSelState = seed ^ 0x9e3779b97f4a7c15
	simTimerState = seed ^ 0xc2b2ae3d27d4eb4f
	simRandOn = seed != 0
}
'''
if '"internal/runtime/math"' not in s and '"runtime/internal/math"' not in s:
    print("gen_overlay: math import not found in rand.go", file=sys.stderr); sys.exit(2)
open(os.path.join(outdir, "rand.go"), "w").write(s)

# ---- select.go
p2 = os.path.join(goroot, "src/runtime/select.go")
s2 = open(p2).read()
s2 = sub(s2, "\t\tj := cheaprandn(uint32(norder + 1))\n", "\t\tj := simCheaprandn(uint32(norder + 1)) // VERIF\n", "select.go")
open(os.path.join(outdir, "select.go"), "w").write(s2)

# ---- time.go: order of fake timers that fire at the same instant
p3 = os.path.join(goroot, "src/runtime/time.go")
s3 = open(p3).read()
s3 = sub(s3, "\t\t\tt.rand = cheaprand()\n", "\t\t\tt.rand = simTimerRand() // VERIF\n", "time.go")
open(os.path.join(outdir, "time.go"), "w").write(s3)

# ---- proc.go: no time-slice preemption by sysmon while a simulated run is in progress
# (under CPU load the 10 ms wall-clock slice expires at arbitrary points and reorders the
# goroutines that one simulator action made runnable)
p4 = os.path.join(goroot, "src/runtime/proc.go")
s4 = open(p4).read()
s4 = sub(s4, "\t\t} else if pd.schedwhen+forcePreemptNS <= now {\n\t\t\tpreemptone(pp)\n",
         "\t\t} else if pd.schedwhen+forcePreemptNS <= now && !simRandOn { // VERIF\n\t\t\tpreemptone(pp)\n", "proc.go")
open(os.path.join(outdir, "proc.go"), "w").write(s4)

# ---- runtime2.go: a goroutine waiting for a sync.Mutex / RWMutex counts as durably blocked
# in a synctest bubble. Upstream excludes these because the holder might live outside the
# bubble; in a simulated run every goroutine of the system is inside it. This lets the
# simulator park a task that holds a plain mutex (e.g. inside a callback) without wedging
# synctest.Wait: contenders block durably, and a real lock cycle surfaces as the bubble's
# deadlock panic instead of a hang.
p5 = os.path.join(goroot, "src/runtime/runtime2.go")
s5 = open(p5).read()
s5 = sub(s5, "\twaitReasonSynctestSelect:        true,\n}", "\twaitReasonSynctestSelect:        true,\n\twaitReasonSyncMutexLock:         true, // VERIF\n\twaitReasonSyncRWMutexRLock:      true, // VERIF\n\twaitReasonSyncRWMutexLock:       true, // VERIF\n}", "runtime2.go")
open(os.path.join(outdir, "runtime2.go"), "w").write(s5)

# ---- sema.go: sync.Mutex decides on starvation mode from the REAL monotonic clock (a waiter
# that waited more than 1 ms). With mutex waits spanning driver steps (runtime2.go above) that
# made the hand-off order depend on wall-clock time. The clock sync.Mutex sees stands still
# during a simulated run: the mutex stays in normal mode, hand-off order is a function of the
# (seeded) schedule only.
p6 = os.path.join(goroot, "src/runtime/sema.go")
s6 = open(p6).read()
s6 = sub(s6, "func internal_sync_nanotime() int64 {\n\treturn nanotime()\n}", "func internal_sync_nanotime() int64 {\n\tif simRandOn { // VERIF\n\t\treturn 0\n\t}\n\treturn nanotime()\n}", "sema.go")
open(os.path.join(outdir, "sema.go"), "w").write(s6)

json.dump({"Replace": {p: os.path.join(outdir, "rand.go"), p2: os.path.join(outdir, "select.go"), p3: os.path.join(outdir, "time.go"), p4: os.path.join(outdir, "proc.go"), p5: os.path.join(outdir, "runtime2.go"), p6: os.path.join(outdir, "sema.go")}},
          open(os.path.join(outdir, "overlay.json"), "w"), indent=1)
print(os.path.join(outdir, "overlay.json"))
