package broadcast

// VERIF: harness-side replacement of github.com/aperturerobotics/util/broadcast/broadcast.go
// (util v1.33.1). With Sim == nil every method runs the original code, byte for byte.
// With Sim != nil the lock becomes a *simulated mutex*: a one-slot channel, so that a
// goroutine waiting for it blocks durably (testing/synctest can reach quiescence), and
// lock acquisition calls into the simulator, which may park the caller before it
// acquires the lock (BeforeLock) or right after (AfterLock: a holder that is slow
// inside its critical section, which makes TryLock contention real).

import (
	"context"
	"errors"
	"runtime"
	"sync"
)

// SimHooks is what the simulator installs.
type SimHooks struct {
	// BeforeLock runs before a blocking acquisition; no lock is held. May park.
	BeforeLock func(b *Broadcast, pc uintptr)
	// AfterLock runs right after an acquisition, lock held. May park.
	AfterLock func(b *Broadcast, pc uintptr)
	// ForceContended, if it returns true, makes a TryLock-style acquisition
	// report "busy" although the lock is free (legal: TryLock may fail spuriously
	// only when another holder exists, so the simulator only returns true while
	// some goroutine is parked in AfterLock on this Broadcast). Unused when nil.
	ForceContended func(b *Broadcast, pc uintptr) bool
}

// Sim is the installed simulator; nil in normal operation.
var Sim *SimHooks

// SimSlowPaths counts HoldLockMaybeAsync calls that found the lock busy and deferred
// their callback to a new goroutine (simulation only; reset by the harness per run).
var SimSlowPaths int

// Broadcast implements notifying waiters via a channel.
//
// The zero-value of this struct is valid.
type Broadcast struct {
	mtx sync.Mutex
	ch  chan struct{}

	// sem is the simulated mutex (only when Sim != nil).
	sem chan struct{}
	// SimID is assigned by the simulator (0 = unassigned).
	SimID int
}

func (c *Broadcast) getSem() chan struct{} {
	c.mtx.Lock()
	if c.sem == nil {
		c.sem = make(chan struct{}, 1)
	}
	s := c.sem
	c.mtx.Unlock()
	return s
}

func callerPC(skip int) uintptr {
	var pcs [1]uintptr
	if runtime.Callers(skip+2, pcs[:]) == 0 {
		return 0
	}
	return pcs[0]
}

func (c *Broadcast) simLock(h *SimHooks, pc uintptr) {
	if h.BeforeLock != nil {
		h.BeforeLock(c, pc)
	}
	c.getSem() <- struct{}{}
	if h.AfterLock != nil {
		h.AfterLock(c, pc)
	}
}

func (c *Broadcast) simTryLock(h *SimHooks, pc uintptr) bool {
	select {
	case c.getSem() <- struct{}{}:
		if h.AfterLock != nil {
			h.AfterLock(c, pc)
		}
		return true
	default:
		return false
	}
}

func (c *Broadcast) simUnlock() {
	<-c.getSem()
}

// HoldLock locks the mutex and calls the callback.
//
// broadcast closes the wait channel, if any.
// getWaitCh returns a channel that will be closed when broadcast is called.
func (c *Broadcast) HoldLock(cb func(broadcast func(), getWaitCh func() <-chan struct{})) {
	if h := Sim; h != nil {
		c.simLock(h, callerPC(1))
		defer c.simUnlock()
		cb(c.broadcastLocked, c.getWaitChLocked)
		return
	}
	c.mtx.Lock()
	defer c.mtx.Unlock()
	cb(c.broadcastLocked, c.getWaitChLocked)
}

// TryHoldLock attempts to lock the mutex and call the callback.
// It returns true if the lock was acquired and the callback was called, false otherwise.
func (c *Broadcast) TryHoldLock(cb func(broadcast func(), getWaitCh func() <-chan struct{})) bool {
	if h := Sim; h != nil {
		if !c.simTryLock(h, callerPC(1)) {
			return false
		}
		defer c.simUnlock()
		cb(c.broadcastLocked, c.getWaitChLocked)
		return true
	}
	if !c.mtx.TryLock() {
		return false
	}
	defer c.mtx.Unlock()
	cb(c.broadcastLocked, c.getWaitChLocked)
	return true
}

// HoldLockMaybeAsync locks the mutex and calls the callback if possible.
// If the mutex cannot be locked right now, starts a new Goroutine to wait for it.
func (c *Broadcast) HoldLockMaybeAsync(cb func(broadcast func(), getWaitCh func() <-chan struct{})) {
	if h := Sim; h != nil {
		pc := callerPC(1)
		if c.simTryLock(h, pc) {
			defer c.simUnlock()
			cb(c.broadcastLocked, c.getWaitChLocked)
			return
		}
		SimSlowPaths++
		go func() {
			c.simLock(h, pc)
			defer c.simUnlock()
			cb(c.broadcastLocked, c.getWaitChLocked)
		}()
		return
	}

	holdBroadcastLock := func(lock bool) {
		if lock {
			c.mtx.Lock()
		}
		// use defer to catch panic cases
		defer c.mtx.Unlock()
		cb(c.broadcastLocked, c.getWaitChLocked)
	}

	// fast path: lock immediately
	if c.mtx.TryLock() {
		holdBroadcastLock(false)
	} else {
		// slow path: use separate goroutine
		go holdBroadcastLock(true)
	}
}

// Wait waits for the cb to return true or an error before returning.
// When the broadcast channel is broadcasted, re-calls cb again to re-check the value.
// cb is called while the mutex is locked.
// Returns context.Canceled if ctx is canceled.
func (c *Broadcast) Wait(ctx context.Context, cb func(broadcast func(), getWaitCh func() <-chan struct{}) (bool, error)) error {
	if cb == nil || ctx == nil {
		return errors.New("cb and ctx must be set")
	}

	var waitCh <-chan struct{}

	for {
		if ctx.Err() != nil {
			return context.Canceled
		}

		var done bool
		var err error
		c.HoldLock(func(broadcast func(), getWaitCh func() <-chan struct{}) {
			done, err = cb(broadcast, getWaitCh)
			if !done && err == nil {
				waitCh = getWaitCh()
			}
		})

		if done || err != nil {
			return err
		}

		select {
		case <-ctx.Done():
			return context.Canceled
		case <-waitCh:
		}
	}
}

// broadcastLocked is the implementation of Broadcast while mtx is locked.
func (c *Broadcast) broadcastLocked() {
	if c.ch != nil {
		close(c.ch)
		c.ch = nil
	}
}

// getWaitChLocked is the implementation of GetWaitCh while mtx is locked.
func (c *Broadcast) getWaitChLocked() <-chan struct{} {
	if c.ch == nil {
		c.ch = make(chan struct{})
	}
	return c.ch
}
